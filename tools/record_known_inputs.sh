#!/bin/bash
# usage: tools/record_known_inputs.sh <tier> <check> [<check> ...]
# Re-records known_inputs/<check>.<tier>.txt (the inputs on which an open known finding manifests on the current, unchanged
# tree) by running the check in record mode.  Evidence and replay files of these runs go to a scratch directory.
# Run it only on a tree on which the checks are otherwise green; a run with an unlisted violation records nothing.
cd "$(dirname "$0")/.."
tier=$1; shift
for c in "$@"; do
  sc=$(mktemp -d /tmp/record_${c}_XXXX)
  VERIF_RECORD=1 VERIF_SEED=0 PYTHONHASHSEED=0 VERIF_SCRATCH=$sc ./check $c --tier $tier 2>&1 | grep '^RECORD\|^\[' 
  rm -rf $sc
done

#!/bin/bash
# usage: tools/seedingest.sh <property-id> <new-seed-id>  — copies /tmp/seedwork/<property-id>/out into seeded/<new-seed-id>,
# regenerates patch.diff from the agent's worktree if missing, and runs seedverify.
p=$1; id=$2; src=/tmp/seedwork/$p; d=/verif/seeded/$id
mkdir -p $d
[ -s $src/out/patch.diff ] || git -C $src/wt diff > $src/out/patch.diff
cp $src/out/patch.diff $src/out/demo.py $d/ && cp $src/out/notes.md $d/ 2>/dev/null
/verif/tools/seedverify.sh $id

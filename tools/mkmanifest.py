import json
BASE = "cd /repo && /venv/bin/python -m pytest -ra -q -p no:cacheprovider --timeout=900 --continue-on-collection-errors"
checks = json.load(open('/verif/tools/checks.json'))
allp = [json.loads(l)['id'] for l in open('/verif/properties.jsonl')]
na = json.load(open('/verif/tools/na.json'))
man = {
 "version": 1,
 "setup_cmd": "./setup.sh",
 "hooks": {"guard": "Y0_VERIF", "enable": "none needed: no source hooks; checks import y0 from /repo/src (editable install) and re-read the sources on every run", "baseline_off_cmd": BASE, "source_commits": [], "add_only": True},
 "engines": [
  {"name": "SEM", "path": "vf/sem", "serves_properties": ["C01","C02","C03","C05","C07","C08","C09","C10","C12","C13","C17","C18","C19"], "kind_free_text": "z3 QF_NRA over symbolic structural causal models: outputs of the real algorithms are translated to polynomial terms and compared with the causal quantity for all parameters"},
  {"name": "RSI", "path": "vf/rsi", "serves_properties": ["C04","C14","C15","C16","C20"], "kind_free_text": "relational symbolic interpreter of y0's graph code (AST of the current source) over symbolic mixed graphs; z3 decides impl = spec for all graphs on N nodes"},
  {"name": "CH", "path": "vf/ch", "serves_properties": ["C11"], "kind_free_text": "CrossHair on pure kernels with symbolic ints"}
 ],
 "checks": [c for c in checks if c['property_id'] in allp],
 "not_applicable": [{"property_id": p, "reason": na.get(p, "check not built yet (work in progress); see DESIGN.md section 8")} for p in allp if p not in {c['property_id'] for c in checks}],
 "notes": "See DESIGN.md. Exit 0 = every decided obligation held (inconclusive ones are listed in evidence, never counted as discharged); 1 = reproduced, unlisted violation; 2 = harness error."
}
json.dump(man, open('/verif/MANIFEST.json','w'), indent=1)
import jsonschema
jsonschema.validate(man, json.load(open('/root/.vp/MANIFEST.schema.json')))
print('manifest ok', len(man['checks']), 'checks', len(man['not_applicable']), 'n/a')

#!/bin/bash
# usage: tools/runsome.sh <tier> <check> [<check> ...]  — runs the given checks sequentially, prints the summary lines
cd "$(dirname "$0")/.."
tier=$1; shift
for c in "$@"; do
  out=$(./check $c --tier $tier 2>&1); rc=$?
  echo "$c exit=$rc $(echo "$out" | grep '^\[' | tail -1)"
  echo "$out" | grep '^VIOLATION\|^HARNESS' | head -3
done

#!/bin/bash
# usage: tools/seedverify.sh <seed-id>   — confirms in a scratch worktree: patch applies, test-suite baseline unchanged, demo fails with / passes without
id=$1; d=/verif/seeded/$id; wt=/tmp/seedverify_$id
git -C /repo worktree add -q --detach $wt HEAD || exit 2
cd $wt
r0=$(PYTHONPATH=$wt/src /venv/bin/python $d/demo.py >/dev/null 2>&1; echo $?)
git apply $d/patch.diff || { echo "patch does not apply"; git -C /repo worktree remove --force $wt; exit 2; }
t=$(PYTHONPATH=$wt/src /venv/bin/python -m pytest -q -p no:cacheprovider --timeout=900 --continue-on-collection-errors 2>&1 | tail -1)
r1=$(PYTHONPATH=$wt/src /venv/bin/python $d/demo.py >/dev/null 2>&1; echo $?)
echo "seed=$id demo_unchanged_exit=$r0 demo_changed_exit=$r1 tests_with_change: $t"
cd /; git -C /repo worktree remove --force $wt

#!/usr/bin/env python3
"""usage: tools/seedmeta.py <seed-id> <needs> <detected_by text> — writes seeded/<id>/meta.json"""
import json, sys
sid, needs, det = sys.argv[1:4]
meta = {
    "breaks": sid[:3],
    "origin": "independent sub-agent (round 5: given only the property text, the list of code sites earlier seeds had changed, and a scratch worktree; asked for a rare trigger at a different site)",
    "needs": needs,
    "confirmed": f"tools/seedverify.sh {sid}: demo exit 0 unchanged / 1 changed, test-suite 387 passed + the 6 baseline failures",
    "detected_by": det,
}
json.dump(meta, open(f"/verif/seeded/{sid}/meta.json", "w"), indent=1)

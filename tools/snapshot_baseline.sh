#!/bin/bash
# usage: tools/snapshot_baseline.sh  — copies /repo's committed src/y0 (HEAD) to /verif/baseline/src/y0 and records the commit.
# Run it when known_findings.json is (re-)recorded, i.e. after a "fix:" commit or when a finding is added; the snapshot is
# what "this input already failed when the finding was recorded" is decided against (vf/common.py).
set -e
cd "$(dirname "$0")/.."
rm -rf baseline; mkdir -p baseline/src
git -C /repo archive HEAD src/y0 | tar -x -C baseline
git -C /repo rev-parse HEAD > baseline/COMMIT
find baseline -name "*.py" | wc -l; cat baseline/COMMIT; du -sh baseline

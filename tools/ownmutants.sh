#!/bin/bash
# usage: tools/ownmutants.sh  — mutation-testing-lite: applies each one-line mutant of tools/own_mutants.tsv to a scratch
# worktree of /repo and runs the named quick check against it (VERIF_REPO).  Prints one line per mutant.
# TSV columns: id <TAB> file (relative to src/y0) <TAB> python regex <TAB> replacement <TAB> check
cd "$(dirname "$0")/.."
while IFS=$'\t' read -r id file pat repl check; do
  [ -z "$id" ] && continue; case "$id" in \#*) continue;; esac
  wt=/tmp/ownmut_$id; sc=/tmp/ownmut_${id}_out
  git -C /repo worktree add -q --detach $wt HEAD || { echo "$id: worktree failed"; continue; }
  python3 - "$wt/src/y0/$file" "$pat" "$repl" <<'PY'
import re, sys
p, pat, repl = sys.argv[1:4]
s = open(p).read()
new, n = re.subn(pat, repl, s, count=1, flags=re.S)
open(p, "w").write(new)
sys.exit(0 if n == 1 else 3)
PY
  rc=$?
  if [ $rc -ne 0 ]; then echo "$id: pattern not found"; git -C /repo worktree remove --force $wt; continue; fi
  if ! PYTHONPATH=$wt/src /venv/bin/python -c "import y0, y0.algorithm.identify, y0.algorithm.transport, y0.algorithm.counterfactual_transport.api, y0.algorithm.simplify_latent, y0.algorithm.separation.sigma_separation" 2>/dev/null; then echo "$id: mutant does not import"; git -C /repo worktree remove --force $wt; continue; fi
  mkdir -p $sc
  out=$(VERIF_REPO=$wt VERIF_SCRATCH=$sc ./check $check --tier quick 2>&1); rc=$?
  echo "$id check=$check exit=$rc $(echo "$out" | grep -c '^VIOLATION') violation lines; $(echo "$out" | grep '^\[' | tail -1 | cut -c1-160)"
  git -C /repo worktree remove --force $wt; rm -rf $sc
done < tools/own_mutants.tsv

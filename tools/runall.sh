#!/bin/bash
# usage: tools/runall.sh [tier]  — runs every registered check once (sequentially), prints the summary lines
cd "$(dirname "$0")/.."
tier=${1:-quick}
for c in $(python3 -c "import json;print(' '.join(x['property_id'] for x in json.load(open('MANIFEST.json'))['checks']))"); do
  out=$(./check $c --tier $tier 2>&1); rc=$?
  echo "$c exit=$rc $(echo "$out" | grep '^\[' | tail -1)"
  echo "$out" | grep '^VIOLATION\|^HARNESS' | head -3
done

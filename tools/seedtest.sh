#!/bin/bash
# usage: tools/seedtest.sh <seed-id> <tier> <check> [<check> ...]
# Applies /verif/seeded/<seed-id>/patch.diff to /repo, runs the given checks, reverts /repo. Prints one line per check.
id=$1; tier=$2; shift 2
cd /repo || exit 2
if ! git diff --quiet; then echo "/repo has uncommitted changes"; exit 2; fi
git apply /verif/seeded/$id/patch.diff || { echo "patch does not apply"; exit 2; }
cd /verif
for c in "$@"; do
  out=$(./check $c --tier $tier 2>&1); rc=$?
  echo "seed=$id check=$c tier=$tier exit=$rc $(echo "$out" | grep -c '^VIOLATION') violation lines; $(echo "$out" | grep '^\[' | tail -1)"
  echo "$out" | grep -A1 '^VIOLATION' | head -4 | cut -c1-300
done
git -C /repo checkout -- .
git -C /repo status --short | head -3

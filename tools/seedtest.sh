#!/bin/bash
# usage: tools/seedtest.sh <seed-id> <tier> <check> [<check> ...]
# Runs the given checks against a scratch worktree of /repo with /verif/seeded/<seed-id>/patch.diff applied
# (VERIF_REPO points the checks at it; evidence/replay files go to a scratch directory). /repo is not touched.
id=$1; tier=$2; shift 2
wt=/tmp/seedtest_$id; sc=/tmp/seedtest_${id}_out
git -C /repo worktree add -q --detach $wt HEAD || exit 2
( cd $wt && git apply /verif/seeded/$id/patch.diff ) || { echo "patch does not apply"; git -C /repo worktree remove --force $wt; exit 2; }
mkdir -p $sc
cd /verif
for c in "$@"; do
  out=$(VERIF_REPO=$wt VERIF_SCRATCH=$sc ./check $c --tier $tier 2>&1); rc=$?
  echo "seed=$id check=$c tier=$tier exit=$rc $(echo "$out" | grep -c '^VIOLATION') violation lines; $(echo "$out" | grep '^\[' | tail -1)"
  echo "$out" | grep -A1 '^VIOLATION' | head -4 | cut -c1-300
  echo "$out" | grep '^HARNESS' | head -2 | cut -c1-300
done
git -C /repo worktree remove --force $wt; rm -rf $sc

"""python -m vf.baseline_replay <PROP>  — reads replay payloads (one JSON per line) and prints one replay code per line.

Started by vf.common.baseline_replay with PYTHONPATH / VERIF_REPO pointing at the snapshot of y0 in /verif/baseline, so
`import y0` is the recorded tree: code 1 means the recorded tree fails on this payload too."""
import contextlib
import importlib
import io
import json
import sys


def main() -> int:
    mod = importlib.import_module(f"vf.checks.{sys.argv[1].lower()}")
    for line in sys.stdin:
        line = line.strip()
        if not line:
            continue
        try:
            with contextlib.redirect_stdout(io.StringIO()):
                code = mod.replay(json.loads(line))
        except Exception:  # noqa: BLE001
            code = 3
        sys.__stdout__.write(f"{code}\n")
        sys.__stdout__.flush()
    return 0


if __name__ == "__main__":
    sys.exit(main())

"""Concrete graph specs and exhaustive enumeration of small ADMGs (family A(n))."""

from __future__ import annotations

import itertools as itt
from dataclasses import dataclass
from functools import lru_cache

NAMES = ["A", "B", "C", "D", "E", "F", "G"]


@dataclass(frozen=True)
class GSpec:
    """A mixed graph: node names in insertion order, directed and bidirected edges."""

    nodes: tuple
    di: tuple  # (u, v) means u -> v
    bi: tuple  # (u, v) unordered

    # -- conversions -------------------------------------------------------------
    def to_nx(self):
        from y0.dsl import Variable
        from y0.graph import NxMixedGraph

        g = NxMixedGraph()
        for n in self.nodes:
            g.add_node(Variable(n))
        for u, v in self.di:
            g.add_directed_edge(Variable(u), Variable(v))
        for u, v in self.bi:
            g.add_undirected_edge(Variable(u), Variable(v))
        return g

    @staticmethod
    def from_nx(g) -> "GSpec":
        nodes = tuple(n.name for n in g.nodes())
        return GSpec(
            nodes,
            tuple((u.name, v.name) for u, v in g.directed.edges()),
            tuple((u.name, v.name) for u, v in g.undirected.edges()),
        )

    def key(self) -> str:
        di = ",".join(f"{u}>{v}" for u, v in sorted(self.di))
        bi = ",".join(f"{min(u, v)}~{max(u, v)}" for u, v in sorted(tuple(sorted(e)) for e in self.bi))
        return f"[{''.join(self.nodes) if all(len(n) == 1 for n in self.nodes) else ' '.join(self.nodes)}|{di}|{bi}]"

    def to_json(self) -> dict:
        return {"nodes": list(self.nodes), "di": [list(e) for e in self.di], "bi": [list(e) for e in self.bi]}

    @staticmethod
    def from_json(d: dict) -> "GSpec":
        return GSpec(tuple(d["nodes"]), tuple(tuple(e) for e in d["di"]), tuple(tuple(e) for e in d["bi"]))

    # -- structure ---------------------------------------------------------------
    def parents(self, v):
        return tuple(u for u, w in self.di if w == v)

    def children(self, v):
        return tuple(w for u, w in self.di if u == v)

    def siblings(self, v):
        return tuple(u if w == v else w for u, w in self.bi if v in (u, w))

    def topo(self) -> tuple:
        """A topological order (deterministic: repeatedly the first ready node in node order)."""
        order, left = [], list(self.nodes)
        while left:
            for n in left:
                if all(p in order for p in self.parents(n)):
                    order.append(n)
                    left.remove(n)
                    break
            else:
                raise ValueError("cyclic")
        return tuple(order)

    def is_acyclic(self) -> bool:
        try:
            self.topo()
            return True
        except ValueError:
            return False

    def ancestors(self, targets, removed_in=()) -> frozenset:
        """Ancestors (inclusive) of targets in the graph with edges into *removed_in* deleted."""
        out = set(targets)
        stack = list(targets)
        while stack:
            v = stack.pop()
            if v in removed_in:
                continue
            for p in self.parents(v):
                if p not in out:
                    out.add(p)
                    stack.append(p)
        return frozenset(out)

    def descendants(self, sources) -> frozenset:
        out = set(sources)
        stack = list(sources)
        while stack:
            v = stack.pop()
            for c in self.children(v):
                if c not in out:
                    out.add(c)
                    stack.append(c)
        return frozenset(out)

    def districts(self, within=None) -> list:
        nodes = [n for n in self.nodes if within is None or n in within]
        comp = {n: n for n in nodes}

        def find(x):
            while comp[x] != x:
                comp[x] = comp[comp[x]]
                x = comp[x]
            return x

        for u, v in self.bi:
            if u in comp and v in comp:
                comp[find(u)] = find(v)
        out: dict = {}
        for n in nodes:
            out.setdefault(find(n), []).append(n)
        return [frozenset(c) for c in out.values()]

    def subgraph(self, keep) -> "GSpec":
        keep = set(keep)
        return GSpec(
            tuple(n for n in self.nodes if n in keep),
            tuple(e for e in self.di if e[0] in keep and e[1] in keep),
            tuple(e for e in self.bi if e[0] in keep and e[1] in keep),
        )

    def relabel(self, mapping: dict, order=None) -> "GSpec":
        nodes = tuple(mapping[n] for n in self.nodes)
        if order is not None:
            nodes = tuple(order)
        return GSpec(
            nodes,
            tuple((mapping[u], mapping[v]) for u, v in self.di),
            tuple((mapping[u], mapping[v]) for u, v in self.bi),
        )


def G(nodes, di=(), bi=()) -> GSpec:
    """Convenience: G("ABC", ["AB", "BC"], ["AC"])."""
    nodes = tuple(nodes) if not isinstance(nodes, str) else tuple(nodes)
    f = lambda es: tuple((e[0], e[1]) if not isinstance(e, str) else (e[0], e[1]) for e in es)
    return GSpec(nodes, f(di), f(bi))


# --------------------------------------------------------------------------- enumeration


def _canon(n, di, bi):
    """Canonical form under node permutation (min over all permutations)."""
    best = None
    for perm in itt.permutations(range(n)):
        d = tuple(sorted((perm[u], perm[v]) for u, v in di))
        b = tuple(sorted(tuple(sorted((perm[u], perm[v]))) for u, v in bi))
        cand = (d, b)
        if best is None or cand < best:
            best = cand
    return best


@lru_cache(maxsize=None)
def admg_classes(n: int, max_bi: int | None = None, max_indeg: int | None = None) -> tuple:
    """All ADMGs on n nodes up to isomorphism, as (di, bi) index tuples with di edges i<j.

    Every DAG is isomorphic to one whose edges go from lower to higher index, so only
    upper-triangular directed parts are generated; a class representative is kept the
    first time its canonical form is seen.
    """
    pairs = list(itt.combinations(range(n), 2))
    seen = {}
    for dmask in range(1 << len(pairs)):
        di = tuple(p for i, p in enumerate(pairs) if dmask >> i & 1)
        if max_indeg is not None and any(sum(1 for e in di if e[1] == v) > max_indeg for v in range(n)):
            continue
        for bmask in range(1 << len(pairs)):
            bi = tuple(p for i, p in enumerate(pairs) if bmask >> i & 1)
            if max_bi is not None and len(bi) > max_bi:
                continue
            c = _canon(n, di, bi)
            if c not in seen:
                seen[c] = (di, bi)
    return tuple(seen.values())


def realise(n, di, bi, labelling: str = "fwd") -> GSpec:
    """Turn an index graph into a GSpec with names.

    fwd: names follow the topological index (A < B < ...), nodes inserted in that order.
    rev: node i gets the name NAMES[n-1-i] and nodes are inserted in *name* order, so the
         alphabetical order is the reverse of the topological one.
    """
    if labelling == "fwd":
        name = {i: NAMES[i] for i in range(n)}
        order = [name[i] for i in range(n)]
    elif labelling == "rev":
        name = {i: NAMES[n - 1 - i] for i in range(n)}
        order = sorted(name.values())
    else:
        raise ValueError(labelling)
    return GSpec(
        tuple(order),
        tuple((name[u], name[v]) for u, v in di),
        tuple((name[u], name[v]) for u, v in bi),
    )


def family(n_max: int, labellings=("fwd", "rev"), n_min: int = 1) -> list:
    out = []
    for n in range(n_min, n_max + 1):
        for di, bi in admg_classes(n):
            for lab in labellings:
                g = realise(n, di, bi, lab)
                if lab == "rev" and n == 1:
                    continue
                out.append(g)
    return out


def nonempty_subsets(items, max_size=None):
    items = list(items)
    for k in range(1, len(items) + 1 if max_size is None else min(max_size, len(items)) + 1):
        yield from itt.combinations(items, k)


def xy_queries(nodes):
    """All ordered pairs of disjoint non-empty subsets (X, Y)."""
    nodes = list(nodes)
    for x in nonempty_subsets(nodes):
        rest = [n for n in nodes if n not in x]
        for y in nonempty_subsets(rest):
            yield frozenset(x), frozenset(y)


# Curated graphs (textbook shapes plus the shapes the design calls out).
CURATED = {
    "napkin": G("WRXY", ["WR", "RX", "XY"], ["WX", "WY"]),
    "frontdoor": G("XZY", ["XZ", "ZY"], ["XY"]),
    "backdoor": G("ZXY", ["ZX", "ZY", "XY"]),
    "bow": G("XY", ["XY"], ["XY"]),
    "verma": G("ABCD", ["AB", "BC", "CD"], ["BD"]),
    "line7_then_6": GSpec(("X1", "A", "X2", "Y"), (("X1", "Y"), ("A", "X2"), ("X2", "Y")), (("X1", "A"), ("A", "Y"))),
    "iv": G("ZXY", ["ZX", "XY"], ["XY"]),
    "isolated": G("XYI", ["XY"]),
    "m_graph": G("XYM", ["XY"], ["XM", "MY"]),
    "fig3_tikka": G("XZWY", ["XZ", "ZW", "WY"], ["XW", "ZY"]),
    "napkin5": G("WRXYI", ["WR", "RX", "XY"], ["WX", "WY"]),
    "fd_extra": G("UXZYV", ["UX", "XZ", "ZY", "YV"], ["XY"]),
    "two_fd": G("XZWY", ["XZ", "XW", "ZY", "WY"], ["XY"]),
    "chain_bi": G("ABCDE", ["AB", "BC", "CD", "DE"], ["AC", "CE"]),
    "chain_bi2": G("ABCDE", ["AB", "BC", "CD", "DE"], ["AC", "BD", "CE"]),
    "fig9": G("XWYDZ", ["XW", "WY", "DZ", "ZY"], ["XY"]),
}

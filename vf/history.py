"""History probes: the answer of a query must depend on the graph it is asked about, not on what was asked before.

For a graph `big`, a set of `extra` construction steps (edges / nodes of big) and a query, the real function is run
 (1) on a graph built afresh by the steps base + extra, nothing asked in between (the reference),
 (2) on a graph built by the base steps, asked, then EDITED IN PLACE by the extra steps, and asked again,
 (3) on a copy() of an already asked base graph, edited by the extra steps; and the base graph is asked once more.
(2) and (3) must give the reference answer (same construction order, so any difference comes from state kept between
calls: caches keyed by a mutable graph, attributes shared by copies, memo tables keyed by id()), and the base graph's
second answer must equal its first.  Native differential runs, not solver-decided; violations carry a replay payload
(kind 'history') that re-executes the sequence.
"""

from __future__ import annotations

import gc
import itertools as itt

from .common import Violation, short
from .graphs import GSpec, family


def ops_of(g: GSpec):
    return [("n", n) for n in g.nodes] + [("d", u, v) for u, v in g.di] + [("b", u, v) for u, v in g.bi]


def apply(graph, ops):
    from y0.dsl import Variable as V

    for op in ops:
        if op[0] == "n":
            graph.add_node(V(op[1]))
        elif op[0] == "d":
            graph.add_directed_edge(V(op[1]), V(op[2]))
        elif op[0] == "b":
            graph.add_undirected_edge(V(op[1]), V(op[2]))
        elif op[0] == "rb":  # re-wiring: networkx is the only way to drop an edge of an NxMixedGraph
            graph.undirected.remove_edge(V(op[1]), V(op[2]))
        elif op[0] == "rd":
            graph.directed.remove_edge(V(op[1]), V(op[2]))
    return graph


def build(ops):
    from y0.graph import NxMixedGraph

    return apply(NxMixedGraph(), ops)


def safe(run, graph, query):
    try:
        return str(run(graph, query))
    except Exception as e:  # noqa: BLE001
        return f"EXC {type(e).__name__}: {short(e, 80)}"


def probe(run, base_ops, extra_ops, query):
    ref = safe(run, build(base_ops + extra_ops), query)
    g = build(base_ops)
    first = safe(run, g, query)
    apply(g, extra_ops)
    again = safe(run, g, query)
    h = build(base_ops)
    safe(run, h, query)
    c = h.copy()
    apply(c, extra_ops)
    via_copy = safe(run, c, query)
    orig_again = safe(run, h, query)
    problems = []
    if again != ref:
        problems.append(f"after an in-place edit the answer is {short(again, 120)}, an equal graph built afresh gives {short(ref, 120)}")
    if via_copy != ref:
        problems.append(f"on an edited copy of a queried graph the answer is {short(via_copy, 120)}, an equal graph built afresh gives {short(ref, 120)}")
    if orig_again != first:
        problems.append(f"editing a copy changed the answer on the original from {short(first, 120)} to {short(orig_again, 120)}")
    return problems


def edge_cases(graphs, max_extra=1):
    """(base_ops, extra_ops) for every graph and every single edge of it taken as the late edit (plus, for graphs with
    >= 2 edges, the last two edges together)."""
    for g in graphs:
        ops = ops_of(g)
        edges = [op for op in ops if op[0] != "n"]
        for e in edges:
            yield g, [op for op in ops if op != e], [e]
        if len(edges) >= 2:
            yield g, [op for op in ops if op not in edges[-2:]], edges[-2:]
        # re-wiring that keeps the numbers of nodes and edges: an edge of g is dropped and another one added
        present = {(op[0], frozenset(op[1:])) for op in edges}
        for e in edges:
            for u, v in itt.combinations(g.nodes, 2):
                kind = e[0]
                if (kind, frozenset((u, v))) in present or (kind == "d" and ("d", frozenset((u, v))) in present):
                    continue
                yield g, ops, [("r" + kind, e[1], e[2]), (kind, u, v)]
                break


def alternate(run, g1: GSpec, g2: GSpec, query, rounds=40):
    """Build-ask-drop loop over two different graphs on the same names (object ids get reused): every answer must equal
    the first answer for that graph."""
    want = {}
    for i in range(rounds):
        g = g1 if i % 2 == 0 else g2
        r = safe(run, g.to_nx(), query)
        k = i % 2
        if k in want and want[k] != r:
            return [f"round {i}: the answer for {g.key()} changed from {short(want[k], 120)} to {short(r, 120)} in a build-ask-drop loop alternating with another graph"]
        want.setdefault(k, r)
        gc.collect()
    return []


def run_probes(rep, prop: str, runs: dict, cases, alternations=()):
    """runs: name -> (run(graph, query), queries(GSpec) -> iterable of JSON-able queries)."""
    n = 0
    for name, (run, queries) in runs.items():
        for g, base_ops, extra_ops in cases:
            for q in queries(g):
                n += 1
                problems = probe(run, base_ops, extra_ops, q)
                if problems:
                    payload = {"property": prop, "kind": "history", "fn": name, "base_ops": base_ops, "extra_ops": extra_ops, "query": q}
                    rep.add_violation(Violation(prop, [f"history:{name} {g.key()} + {extra_ops} {q}"], f"{name} on {g.key()} (late edit {extra_ops}, query {q}): " + "; ".join(problems), payload))
                    break
        for g1, g2, q in alternations:
            n += 1
            problems = alternate(run, g1, g2, q)
            if problems:
                payload = {"property": prop, "kind": "history", "fn": name, "alternate": [g1.to_json(), g2.to_json()], "query": q}
                rep.add_violation(Violation(prop, [f"history:{name} alternate {g1.key()} {g2.key()} {q}"], f"{name}: " + problems[0], payload))
    rep.extra["history_probes"] = {"sequences": n, "note": "native differential runs (fresh graph vs. graph edited in place after a query vs. edited copy; build-ask-drop alternation), not solver-decided"}
    return n


def replay(payload: dict, runs: dict) -> int:
    run = runs[payload["fn"]][0]
    if "alternate" in payload:
        problems = alternate(run, GSpec.from_json(payload["alternate"][0]), GSpec.from_json(payload["alternate"][1]), payload["query"])
    else:
        problems = probe(run, [tuple(o) for o in payload["base_ops"]], [tuple(o) for o in payload["extra_ops"]], payload["query"])
    print(problems)
    print("reproduced" if problems else "not reproduced")
    return 1 if problems else 0


def small_graphs(stride=1, offset=0, n=3):
    gs = [g for g in family(n, labellings=("fwd",), n_min=n) if g.di or g.bi]
    return gs[offset % stride :: stride]

"""Run functions and query generators of the history probes, per property (see vf/history.py)."""

from __future__ import annotations

import itertools as itt

from .events import to_y0_event
from .graphs import GSpec


def V(n):
    from y0.dsl import Variable

    return Variable(n)


def pairs_with_sets(g):
    for a, b in itt.combinations(g.nodes, 2):
        rest = [n for n in g.nodes if n not in (a, b)]
        for k in range(len(rest) + 1):
            for C in itt.combinations(rest, k):
                yield [a, b, list(C)]


def one_query(g):
    yield None


def xy(g):
    for x in g.nodes:
        for y in g.nodes:
            if x != y:
                yield [[x], [y]]


def xyz(g):
    for x, y, z in itt.permutations(g.nodes, 3):
        yield [[x], [y], [z]]


def subsets(g):
    for k in (1, 2):
        for S in itt.combinations(g.nodes, k):
            yield list(S)


def events1(g):
    """A few two-atom events: V_x = 0 together with a factual atom."""
    for x, y in itt.permutations(g.nodes, 2):
        yield [[y, [[x, 0]], 0], [x, [], 1]]
        yield [[y, [[x, 1]], 1], [y, [], 0]]


def ev_of(q):
    return to_y0_event(tuple((a[0], tuple(tuple(p) for p in a[1]), a[2]) for a in q))


# ------------------------------------------------------------------ run functions (graph, query) -> comparable value
def r_dsep(graph, q):
    from y0.algorithm.conditional_independencies import are_d_separated

    return bool(are_d_separated(graph, V(q[0]), V(q[1]), conditions=[V(c) for c in q[2]]))


def r_ci(graph, q):
    from y0.algorithm.conditional_independencies import get_conditional_independencies

    return sorted(str(j) for j in get_conditional_independencies(graph))


def r_sigma(graph, q):
    from y0.algorithm.separation.sigma_separation import are_sigma_separated

    return bool(are_sigma_separated(graph, V(q[0]), V(q[1]), conditions=[V(c) for c in q[2]]))


def r_id(graph, q):
    from y0.algorithm.identify import identify_outcomes

    return identify_outcomes(graph, {V(x) for x in q[0]}, {V(y) for y in q[1]})


_IDENTS: dict = {}


def r_identify(graph, q):
    """ID on ONE Identification object per (graph object, query), asked again after the graph it holds was edited
    (identify_outcomes builds a new one on a copy of the graph each time)."""
    from y0.algorithm.identify import Identification, Unidentifiable, identify
    from y0.dsl import P

    key = (id(graph), q[0][0], q[1][0])
    hit = _IDENTS.get(key)
    if hit is None or hit[0] is not graph:
        ident = Identification.from_expression(graph=graph, query=P(V(q[1][0]) @ V(q[0][0])))
        if ident.graph is not graph:
            ident.graph = graph  # hold the caller's own graph object
        hit = _IDENTS[key] = (graph, ident)
        if len(_IDENTS) > 20000:
            _IDENTS.clear()
    try:
        return identify(hit[1])
    except Unidentifiable:
        return "unidentifiable"


def r_idc(graph, q):
    from y0.algorithm.identify import identify_outcomes

    return identify_outcomes(graph, {V(x) for x in q[0]}, {V(y) for y in q[1]}, conditions={V(z) for z in q[2]})


def r_idstar(graph, q):
    from y0.algorithm.identify import Unidentifiable, id_star

    try:
        return id_star(graph, ev_of(q))
    except Unidentifiable:
        return "unidentifiable"


def r_cg(graph, q):
    from y0.algorithm.identify.cg import make_counterfactual_graph

    cg, ev = make_counterfactual_graph(graph, ev_of(q))
    return (sorted(map(str, cg.nodes())), sorted(map(str, cg.directed.edges())), sorted(str(tuple(sorted(map(str, e)))) for e in cg.undirected.edges()), None if ev is None else sorted((str(k), str(v)) for k, v in ev.items()))


def r_factorize(graph, q):
    from y0.algorithm.counterfactual_transport.api import do_counterfactual_factor_factorization

    ev = ev_of(q)
    return do_counterfactual_factor_factorization(variables=list(ev.items()), graph=graph)


def r_components(graph, q):
    from y0.algorithm.counterfactual_transport.ancestor_utils import get_ancestral_components

    res = get_ancestral_components(conditioned_variables=set(), root_variables=set(graph.nodes()), graph=graph)
    return sorted(sorted(map(str, c)) for c in res)


def r_ancestors(graph, q):
    return (sorted(map(str, graph.ancestors_inclusive({V(n) for n in q}))), sorted(map(str, graph.descendants_inclusive({V(n) for n in q}))))


def r_districts(graph, q):
    return (sorted(sorted(map(str, d)) for d in graph.districts()), sorted(map(str, graph.get_markov_pillow({V(n) for n in q}))), sorted(str(tuple(sorted(map(str, e)))) for e in graph.moralize().undirected.edges()), sorted(map(str, graph.get_district(V(q[0])))))


def r_tian(graph, q):
    """IDENTIFY for every single-node C of every district, Q[T] by Lemma 1 (one topological order)."""
    from y0.algorithm.tian_id import compute_c_factor, identify_district_variables
    from y0.dsl import P

    topo = list(graph.topological_sort())
    out = []
    for T in sorted(graph.districts(), key=lambda d: sorted(map(str, d))):
        qT = compute_c_factor(district=[v for v in topo if v in T], subgraph_variables=set(topo), subgraph_probability=P(topo), graph_topo=topo)
        for c in sorted(T, key=str):
            out.append(str(identify_district_variables(input_variables=frozenset({c}), input_district=frozenset(T), district_probability=qT, graph=graph, topo=topo)))
    return out


def r_idcstar(graph, q):
    from y0.algorithm.identify import Unidentifiable, idc_star

    try:
        return idc_star(graph, ev_of(q[:1]), ev_of(q[1:]))
    except Unidentifiable:
        return "unidentifiable"


def r_trso(graph, q):
    """P*(y | do x) with one source domain that experiments on x and observes y's other parent candidates."""
    from y0.algorithm.transport import identify_target_outcomes
    from y0.dsl import Pi1

    (x,), (y,) = q
    others = sorted(n.name for n in graph.nodes() if n.name not in (x, y))
    return identify_target_outcomes(graph, target_outcomes={V(y)}, target_interventions={V(x)}, surrogate_outcomes={Pi1: {V(y)} | {V(o) for o in others[:1]}}, surrogate_interventions={Pi1: {V(x)}})


def r_lvdag(graph, q):
    from y0.graph import NxMixedGraph

    lv = graph.to_latent_variable_dag()
    back = NxMixedGraph.from_latent_variable_dag(lv)
    return (sorted(map(str, back.nodes())), sorted(map(str, back.directed.edges())), sorted(str(tuple(sorted(map(str, e)))) for e in back.undirected.edges()))


def r_evans(graph, q):
    from y0.algorithm.simplify_latent import evans_simplify

    out = evans_simplify(graph, latents=[V(q[0])])
    return (sorted(map(str, out.nodes())), sorted(map(str, out.directed.edges())), sorted(str(tuple(sorted(map(str, e)))) for e in out.undirected.edges()))


def r_ctf(graph, q):
    """Unconditional counterfactual transport through the public wrapper, the target domain as only data source."""
    from y0.algorithm.counterfactual_transport import api
    from y0.dsl import TARGET_DOMAIN, CounterfactualVariable, Variable

    ev = ev_of(q)
    marked = [CounterfactualVariable(name=k.name, star=v.star, interventions=k.interventions) if isinstance(k, CounterfactualVariable) else Variable(name=k.name, star=v.star) for k, v in ev.items()]
    dom = api.CFTDomain(graph=graph, population=TARGET_DOMAIN, policy_variables=set(), ordering=None)
    res = api.unconditional_cft(event=marked, target_domain_graph=graph, domains=[dom])
    return None if res is None else (res.expression, res.event)


def singles(g):
    for n in g.nodes:
        yield [n]


RUNS = {
    "C05": {"identify_target_outcomes": (r_trso, xy)},
    "C08": {"idc_star": (r_idcstar, events1)},
    "C09": {"unconditional_cft": (r_ctf, events1)},
    "C16": {"LV-DAG round trip": (r_lvdag, one_query), "evans_simplify": (r_evans, singles)},
    "C01": {"identify_outcomes": (r_id, xy), "identify(Identification)": (r_identify, xy)},
    "C02": {"identify(Identification)": (r_identify, xy), "identify_outcomes": (r_id, xy)},
    "C03": {"identify_outcomes(conditions)": (r_idc, xyz)},
    "C04": {"are_d_separated": (r_dsep, pairs_with_sets)},
    "C07": {"id_star": (r_idstar, events1)},
    "C14": {"ancestors/descendants": (r_ancestors, subsets), "districts/pillow/moralize/get_district": (r_districts, subsets)},
    "C15": {"get_conditional_independencies": (r_ci, one_query)},
    "C17": {"identify_district_variables": (r_tian, one_query)},
    "C18": {"make_counterfactual_graph": (r_cg, events1)},
    "C19": {"do_counterfactual_factor_factorization": (r_factorize, events1), "get_ancestral_components": (r_components, one_query)},
    "C20": {"are_sigma_separated": (r_sigma, pairs_with_sets)},
}

FIVE_A = GSpec(("A", "B", "C", "D", "E"), (("A", "B"), ("B", "C"), ("C", "D"), ("D", "E")), (("A", "C"), ("B", "E"), ("C", "E")))
FIVE_B = GSpec(("A", "B", "C", "D", "E"), (("A", "C"), ("B", "C"), ("C", "E"), ("D", "E")), (("A", "B"), ("B", "D"), ("D", "C"), ("A", "E")))
ALTERNATIONS = {"C17": [(FIVE_A, FIVE_B, None)], "C01": [(FIVE_A, FIVE_B, [["A"], ["E"]])], "C04": [(FIVE_A, FIVE_B, ["A", "E", ["C"]])], "C15": [(FIVE_A, FIVE_B, None)]}


def run(rep, prop, stride=2):
    from . import history
    from .common import seed

    cases = list(history.edge_cases(history.small_graphs(stride, seed())))
    return history.run_probes(rep, prop, RUNS[prop], cases, ALTERNATIONS.get(prop, ()))


def replay(prop, payload):
    from . import history

    return history.replay(payload, RUNS[prop])

"""Shared infrastructure: evidence, known findings, replay files, parallel map, exit codes."""

from __future__ import annotations

import hashlib
import json
import multiprocessing as mp
import os
import sys
import time
import traceback
from dataclasses import dataclass, field
from pathlib import Path
from typing import Any, Callable, Iterable

ROOT = Path(__file__).resolve().parent.parent
REPO = Path(os.environ.get("VERIF_REPO", "/repo"))
# VERIF_SCRATCH redirects evidence and replay files (used by tools/seedtest.sh so that a run against a seeded copy
# of the repository does not overwrite the evidence of the real tree)
EVIDENCE_DIR = Path(os.environ["VERIF_SCRATCH"]) / "evidence" if os.environ.get("VERIF_SCRATCH") else ROOT / "evidence"
REPLAY_DIR = Path(os.environ["VERIF_SCRATCH"]) / "replay" if os.environ.get("VERIF_SCRATCH") else ROOT / "replay"
KNOWN_FINDINGS = ROOT / "known_findings.json"

EXIT_OK = 0
EXIT_VIOLATION = 1
EXIT_HARNESS = 2

NPROC = int(os.environ.get("VERIF_NPROC", str(min(16, os.cpu_count() or 1))))


def tier() -> str:
    t = os.environ.get("VERIF_TIER", "quick")
    return t if t in ("quick", "thorough") else "quick"


def seed() -> int:
    try:
        return int(os.environ.get("VERIF_SEED", "0"))
    except ValueError:
        return 0


class HarnessError(Exception):
    """The machinery (not y0) is at fault: encoding cannot be built, cex does not replay..."""


class Unsupported(Exception):
    """An expression / construct is outside the vocabulary an evaluator or interpreter accepts."""


# --------------------------------------------------------------------------- known findings


def load_known_findings() -> list[dict]:
    if not KNOWN_FINDINGS.exists():
        return []
    data = json.loads(KNOWN_FINDINGS.read_text())
    return [e for e in data.get("findings", []) if e.get("status", "open") == "open"]


# --------------------------------------------------------------------------- narrowing of known findings
# A known finding is listed in known_findings.json by a *condition* (call site, input/output shape).  A condition alone
# would also excuse a new defect that happens to fail on an input of the same shape.  Therefore /verif/baseline/src holds
# a snapshot of src/y0 as it was when the open findings were recorded (tools/snapshot_baseline.sh; commit in
# baseline/COMMIT), and a failure is attributed to a finding only if its condition holds AND the same replay payload
# (same input, same counterexample model) also reproduces against that snapshot, i.e. this specific input already failed
# in this way on the recorded tree.  A failure that the snapshot does not reproduce is reported as a violation.
# The snapshot is only ever used for this attribution; every check runs against /repo.
BASELINE = ROOT / "baseline"


def baseline_commit() -> str | None:
    f = BASELINE / "COMMIT"
    return f.read_text().strip() if f.exists() and (BASELINE / "src" / "y0").is_dir() else None


def baseline_replay(prop: str, payloads: list[dict]) -> list[int]:
    """Replay codes (1 = reproduced) of the payloads against the recorded snapshot, computed in fresh interpreters."""
    import subprocess
    import tempfile

    if not payloads:
        return []
    n = max(1, min(NPROC, len(payloads) // 20 + 1))
    chunks = [payloads[i::n] for i in range(n)]
    env = dict(os.environ, PYTHONPATH=f"{ROOT}:{BASELINE}/src", VERIF_REPO=str(BASELINE), VERIF_NPROC="1")
    env.pop("VERIF_SCRATCH", None)
    procs = []
    for ch in chunks:
        f = tempfile.TemporaryFile("w+")
        f.write("\n".join(json.dumps(p, sort_keys=True, default=str) for p in ch) + "\n")
        f.seek(0)
        procs.append(subprocess.Popen([sys.executable, "-m", "vf.baseline_replay", prop], stdin=f, stdout=subprocess.PIPE, stderr=subprocess.DEVNULL, text=True, env=env, cwd=str(ROOT)))
    codes = [3] * len(payloads)
    for k, pr in enumerate(procs):
        out = pr.communicate()[0].split()
        for j, c in enumerate(out[: len(chunks[k])]):
            codes[k + j * n] = int(c) if c.lstrip("-").isdigit() else 3
    return codes


def match_known(prop: str, keys: Iterable[str]) -> dict | None:
    """Return the known-finding entry matching one of *keys* for property *prop* (or None)."""
    keys = set(keys)
    for e in load_known_findings():
        if e["property"] == prop and e["key"] in keys:
            return e
    return None


# --------------------------------------------------------------------------- results


@dataclass
class Violation:
    prop: str
    keys: list[str]  # keys under which this violation may be listed as a known finding
    what: str  # one-line description
    replay: dict  # JSON-able replay payload (input + model + observed values)

    def replay_path(self) -> Path:
        blob = json.dumps(self.replay, sort_keys=True, default=str)
        h = hashlib.sha1(blob.encode()).hexdigest()[:12]
        d = REPLAY_DIR / self.prop
        d.mkdir(parents=True, exist_ok=True)
        p = d / f"{h}.json"
        p.write_text(json.dumps(self.replay, indent=1, sort_keys=True, default=str))
        return p


@dataclass
class Report:
    """Accumulates what one check run covered."""

    prop: str
    level: str
    functions: list[str] = field(default_factory=list)
    bounds: dict = field(default_factory=dict)
    assumptions: list[str] = field(default_factory=list)
    stubs: list[str] = field(default_factory=list)
    rule: str = ""
    cases: int = 0  # inputs given to the real code
    nontrivial: set = field(default_factory=set)
    obligations: int = 0  # solver queries asked
    discharged: int = 0  # answered unsat (property holds for all values in bound)
    refuted: int = 0  # answered sat
    inconclusive: int = 0  # unknown / timeout
    inconclusive_samples: list = field(default_factory=list)
    solver_s: float = 0.0
    samples: list = field(default_factory=list)
    violations: list[Violation] = field(default_factory=list)
    known: list[tuple[dict, Violation]] = field(default_factory=list)
    extra: dict = field(default_factory=dict)
    harness_errors: list[str] = field(default_factory=list)
    t0: float = field(default_factory=time.time)
    counters: dict = field(default_factory=dict)
    pending: list = field(default_factory=list)

    def count(self, key: str, n: int = 1) -> None:
        self.counters[key] = self.counters.get(key, 0) + n

    def add_sample(self, s: Any, limit: int = 8) -> None:
        if len(self.samples) < limit:
            self.samples.append(s)

    def add_violation(self, v: Violation) -> None:
        e = match_known(v.prop, v.keys)
        if e is not None:
            self.pending.append((e, v))  # decided in finish(): the condition holds; does the recorded snapshot fail too?
        else:
            self.violations.append(v)

    def resolve_pending(self) -> None:
        if not self.pending:
            return
        commit = baseline_commit()
        if commit is None or os.environ.get("VERIF_NO_BASELINE") == "1":
            self.known.extend(self.pending)
            self.extra["known_finding_attribution"] = "condition only (no baseline snapshot available)"
            self.pending = []
            return
        t0 = time.time()
        codes = baseline_replay(self.prop, [v.replay for _, v in self.pending])
        for (e, v), c in zip(self.pending, codes):
            if c == 1:
                self.known.append((e, v))
            elif c == 0:
                v.what += f" [the condition of known finding {e['key']} holds, but this input does not fail on the snapshot of y0 taken when the finding was recorded ({commit[:7]}): a new failure]"
                self.count("finding_condition_but_new_failure")
                self.violations.append(v)
            else:
                self.harness_errors.append(f"baseline replay failed (code {c}) for {short(v.what, 200)}")
        self.extra["known_finding_attribution"] = f"condition AND the same replay payload reproduces on the snapshot of y0 at {commit[:12]} ({len(codes)} payloads replayed in {time.time() - t0:.0f} s)"
        self.pending = []

    # -- finishing ------------------------------------------------------------------
    def finish(self) -> int:
        wall = time.time() - self.t0
        EVIDENCE_DIR.mkdir(parents=True, exist_ok=True)
        self.resolve_pending()
        seen_known = {}
        for e, v in self.known:
            seen_known.setdefault(e["key"], (e, v, 0))
            e0, v0, n = seen_known[e["key"]]
            seen_known[e["key"]] = (e0, v0, n + 1)
        for key, (e, v, n) in seen_known.items():
            print(f"KNOWN-FINDING: property={self.prop} {e['what']} [key={key}; {n} occurrence(s) this run]")
        vio_lines = []
        for v in self.violations[:20]:
            p = v.replay_path()
            vio_lines.append((v, p))
            print(f"VIOLATION property={self.prop} replay={p}")
            print(f"  {v.what}")
        if len(self.violations) > 20:
            print(f"  ... and {len(self.violations) - 20} more violations (not written)")
        for h in self.harness_errors[:10]:
            print(f"HARNESS-ERROR property={self.prop} {h}")
        coverage: dict[str, Any] = {
            "functions_encoded": self.functions,
            "bounds": self.bounds,
            "stubs": self.stubs,
            "evaluations": self.cases,
            "distinct_nontrivial": len(self.nontrivial),
            "rule": self.rule,
            "samples": self.samples or ["(no sample recorded)"],
            "obligations": self.obligations,
            "discharged": self.discharged,
            "refuted_sat": self.refuted,
            "inconclusive": self.inconclusive,
            "inconclusive_samples": self.inconclusive_samples[:10],
            "solver_seconds": round(self.solver_s, 3),
            "counters": self.counters,
            "known_findings_matched": sorted(seen_known),
            "harness_errors": self.harness_errors[:10],
        }
        coverage.update(self.extra)
        if self.level == "translation_validation":
            coverage.setdefault("programs", max(self.cases, 0))
            coverage.setdefault("disagreements_checked", self.refuted)
        if self.level == "other":
            coverage.setdefault("explanation", self.rule or "see rule")
        ev = {
            "property_id": self.prop,
            "tier": tier(),
            "seed": seed(),
            "level": self.level,
            "coverage": coverage,
            "assumptions": self.assumptions,
            "wall_s": round(wall, 2),
            "violations": len(self.violations),
        }
        (EVIDENCE_DIR / f"{self.prop}.json").write_text(json.dumps(ev, indent=1, default=str))
        status = EXIT_OK
        if self.harness_errors:
            status = EXIT_HARNESS
        if self.violations:
            status = EXIT_VIOLATION
        print(
            f"[{self.prop}] tier={tier()} cases={self.cases} nontrivial={len(self.nontrivial)} "
            f"obligations={self.obligations} discharged={self.discharged} sat={self.refuted} "
            f"inconclusive={self.inconclusive} solver_s={self.solver_s:.1f} wall_s={wall:.1f} "
            f"violations={len(self.violations)} known={len(self.known)} exit={status}"
        )
        return status


# --------------------------------------------------------------------------- parallel map


def _worker_call(args):
    fn, item = args
    try:
        return ("ok", fn(item))
    except Exception as e:  # noqa: BLE001 - surface as harness error
        return ("err", f"{type(e).__name__}: {e}\n{traceback.format_exc(limit=8)}")


def pmap(fn: Callable, items: list, nproc: int | None = None, chunksize: int = 1, task_timeout: float | None = None):
    """Ordered parallel map (fork); yields (item, status, result).

    Robust against a worker that dies (e.g. killed for memory) or hangs: the pool is rebuilt and the
    item is reported with status 'err' (a harness error), never silently dropped."""
    import concurrent.futures as cf

    nproc = nproc or NPROC
    task_timeout = task_timeout or float(os.environ.get("VERIF_TASK_TIMEOUT", "1800"))
    if nproc <= 1 or len(items) <= 1:
        for it in items:
            st, res = _worker_call((fn, it))
            yield it, st, res
        return
    ctx = mp.get_context("fork")
    pending = list(enumerate(items))
    results: dict = {}
    next_out = 0
    while pending:
        ex = cf.ProcessPoolExecutor(max_workers=nproc, mp_context=ctx)
        futs = {ex.submit(_worker_call, (fn, it)): (i, it) for i, it in pending}
        pending = []
        broken = False
        try:
            for fut in cf.as_completed(futs, timeout=None):
                i, it = futs[fut]
                try:
                    results[i] = fut.result(timeout=0)
                except cf.process.BrokenProcessPool:
                    broken = True
                    results[i] = None
                except Exception as e:  # noqa: BLE001
                    results[i] = ("err", f"worker failure: {type(e).__name__}: {e}")
                while next_out in results and results[next_out] is not None:
                    st, res = results.pop(next_out)
                    yield items[next_out], st, res
                    next_out += 1
        finally:
            ex.shutdown(wait=False, cancel_futures=True)
        if broken:
            # a worker died: every unfinished item of this round is retried one by one in fresh single-worker pools
            lost = [i for i, r in results.items() if r is None]
            for i in lost:
                ex1 = cf.ProcessPoolExecutor(max_workers=1, mp_context=ctx)
                try:
                    results[i] = ex1.submit(_worker_call, (fn, items[i])).result(timeout=task_timeout)
                except Exception as e:  # noqa: BLE001
                    results[i] = ("err", f"worker died or timed out on this item: {type(e).__name__}")
                finally:
                    ex1.shutdown(wait=False, cancel_futures=True)
            while next_out in results and results[next_out] is not None:
                st, res = results.pop(next_out)
                yield items[next_out], st, res
                next_out += 1
    while next_out in results:
        st, res = results.pop(next_out)
        yield items[next_out], st, res
        next_out += 1


def short(s: Any, n: int = 300) -> str:
    s = str(s)
    return s if len(s) <= n else s[: n - 3] + "..."


def eprint(*a, **k) -> None:
    print(*a, file=sys.stderr, **k)

"""Identifiability oracles for P(y | do x) on a concrete ADMG.

hedge_exists(): Definition 6 of Shpitser & Pearl (2006) as a SAT query (z3 Booleans) with the
*given* X and Y (no sub-selection; see DESIGN §6.1).  sat <=> a hedge exists <=> not identifiable.

ref_identifiable(): a short transcription of the ID algorithm of the paper that only returns
the verdict; used to validate the SAT encoding (never the deciding step).
"""

from __future__ import annotations

import time

import z3

from ..graphs import GSpec


def hedge_exists(g: GSpec, X, Y, timeout_ms: int = 20000):
    """Returns (verdict 'sat'|'unsat'|'unknown', witness dict or None, seconds)."""
    t0 = time.time()
    X, Y = set(X), set(Y)
    nodes = list(g.nodes)
    n = len(nodes)
    F = {v: z3.Bool(f"F_{v}") for v in nodes}
    Fp = {v: z3.Bool(f"Fp_{v}") for v in nodes}
    sel = {(u, w): z3.Bool(f"sel_{u}_{w}") for (u, w) in g.di}
    s = z3.Solver()
    s.set("timeout", timeout_ms)
    for v in nodes:
        s.add(z3.Implies(Fp[v], F[v]))
    s.add(z3.Or([F[x] for x in X]) if X else z3.BoolVal(False))
    for x in X:
        s.add(z3.Not(Fp[x]))
    for (u, w), b in sel.items():
        s.add(z3.Implies(b, z3.And(F[u], F[w])))
    root = {}
    for v in nodes:
        outs = [sel[(u, w)] for (u, w) in g.di if u == v]
        if len(outs) > 1:
            s.add(z3.AtMost(*outs, 1))
        root[v] = z3.And(F[v], z3.Not(z3.Or(outs))) if outs else F[v]
    anc = g.ancestors(Y, removed_in=X)
    for v in nodes:
        # R subset of F', R subset of An(Y) in G with edges into X removed
        s.add(z3.Implies(root[v], Fp[v]))
        if v not in anc:
            s.add(z3.Not(root[v]))
    for (u, w), b in sel.items():
        # F' keeps the selected child of each of its non-root nodes (same root set)
        s.add(z3.Implies(z3.And(Fp[u], b), Fp[w]))
    # every node of F that is not a root needs its (unique) selected child: by definition of root
    # bidirected connectivity of F and of F' (bounded reachability from the first member)
    for tag, S in (("F", F), ("Fp", Fp)):
        reach = {}
        for i, v in enumerate(nodes):
            reach[v] = z3.And(S[v], z3.Not(z3.Or([S[u] for u in nodes[:i]]))) if i else S[v]
        for k in range(n - 1):
            nxt = {}
            for v in nodes:
                nb = [reach[u] for u in g.siblings(v)]
                nxt[v] = z3.Or(reach[v], z3.And(S[v], z3.Or(nb))) if nb else reach[v]
            reach = nxt
        for v in nodes:
            s.add(z3.Implies(S[v], reach[v]))
    r = str(s.check())
    wit = None
    if r == "sat":
        m = s.model()
        wit = {
            "F": [v for v in nodes if z3.is_true(m.eval(F[v], model_completion=True))],
            "Fprime": [v for v in nodes if z3.is_true(m.eval(Fp[v], model_completion=True))],
            "edges": [f"{u}>{w}" for (u, w), b in sel.items() if z3.is_true(m.eval(b, model_completion=True))],
        }
    return r, wit, time.time() - t0


def check_hedge_witness(g: GSpec, X, Y, wit) -> bool:
    """Concrete re-check of a SAT witness against Definition 6 (independent of the encoding)."""
    X, Y = set(X), set(Y)
    F, Fp = set(wit["F"]), set(wit["Fprime"])
    edges = [tuple(e.split(">")) for e in wit["edges"]]
    if not (Fp <= F and F & X and not (Fp & X)):
        return False
    if any(u not in F or w not in F or (u, w) not in g.di for u, w in edges):
        return False
    child = {}
    for u, w in edges:
        if u in child:
            return False
        child[u] = w
    R = {v for v in F if v not in child}
    if not R <= Fp or not R <= set(g.ancestors(Y, removed_in=X)):
        return False
    if any(u in Fp and child[u] not in Fp for u in child):
        return False
    for S in (F, Fp):
        if len(g.districts(within=S)) != 1:
            return False
    return True


def ref_identifiable(g: GSpec, X, Y) -> bool:
    """Verdict of the ID algorithm (Shpitser & Pearl 2006, Fig. 3), transcribed on GSpec."""
    X, Y = frozenset(X), frozenset(Y)
    V = frozenset(g.nodes)
    if not X:
        return True  # line 1
    an = g.ancestors(Y)
    if V - an:
        return ref_identifiable(g.subgraph(an), X & an, Y)  # line 2
    W = (V - X) - g.ancestors(Y, removed_in=X)
    if W:
        return ref_identifiable(g, X | W, Y)  # line 3
    cx = g.districts(within=V - X)
    if len(cx) > 1:
        return all(ref_identifiable(g, V - S, S) for S in cx)  # line 4
    S = cx[0]
    cg = g.districts()
    if len(cg) == 1:
        return False  # line 5
    if S in cg:
        return True  # line 6
    Sp = next(d for d in cg if S < d)
    return ref_identifiable(g.subgraph(Sp), X & Sp, Y)  # line 7


def ref_trace(g: GSpec, X, Y, after7: int = 0, trace=None):
    """Like ref_identifiable, but also records which lines fire: items (line, depth of line-7 nesting, |district|)."""
    trace = [] if trace is None else trace
    X, Y = frozenset(X), frozenset(Y)
    V = frozenset(g.nodes)
    if not X:
        trace.append((1, after7, 0))
        return True, trace
    an = g.ancestors(Y)
    if V - an:
        trace.append((2, after7, 0))
        return ref_trace(g.subgraph(an), X & an, Y, after7, trace)
    W = (V - X) - g.ancestors(Y, removed_in=X)
    if W:
        trace.append((3, after7, 0))
        return ref_trace(g, X | W, Y, after7, trace)
    cx = g.districts(within=V - X)
    if len(cx) > 1:
        trace.append((4, after7, len(cx)))
        ok = True
        for S in cx:
            r, _ = ref_trace(g, V - S, S, after7, trace)
            ok = ok and r
        return ok, trace
    S = cx[0]
    cg = g.districts()
    if len(cg) == 1:
        trace.append((5, after7, 0))
        return False, trace
    if S in cg:
        # position of the district members in the topological order matters for derived conditionals
        topo = g.topo()
        not_last = sum(1 for v in S if topo.index(v) < len(topo) - 1)
        trace.append((6, after7, len(S) * 10 + min(not_last, 9)))
        return True, trace
    Sp = next(d for d in cg if S < d)
    trace.append((7, after7, len(Sp)))
    return ref_trace(g.subgraph(Sp), X & Sp, Y, after7 + 1, trace)

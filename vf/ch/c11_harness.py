"""CrossHair harness for C11 (canonical form is a normal form).

Inputs are ints only: a template index, indices of four distinct names, an ordering index and presentation
indices (factor permutation, product nesting, child/parent reversal).  Each function is checked with
`crosshair check --report_all`; only "Confirmed over all paths" counts.  The functions are also plain
Python, so a counterexample is replayed by calling them natively.
"""

import itertools as itt

from y0.dsl import PP, Distribution, Fraction, One, P, Pi1, Probability, Product, Sum, Variable
from y0.mutate import canonicalize

NAMES = ["A", "B", "C", "D"]
NAME_PERMS = list(itt.permutations(range(4)))  # 24 assignments of distinct names to slots
ORDERINGS = [(0, 1, 2, 3), (3, 2, 1, 0), (2, 0, 3, 1)]
PERMS3 = list(itt.permutations(range(3)))
PERMS2 = list(itt.permutations(range(2)))


def V(i):
    return Variable(NAMES[i])


def raw(children, parents=(), pop=None, do=None):
    ch = tuple(children)
    pa = tuple(parents)
    if do is not None:
        ch = tuple(c @ do for c in ch)
        pa = tuple(p @ do for p in pa)
    d = Distribution(children=ch, parents=pa)
    if pop is not None:
        from y0.dsl import PopulationProbability

        return PopulationProbability(population=pop, distribution=d)
    return Probability(d)


def template(t, n):
    """List of factors of template t over the name slots n = (n0, n1, n2, n3)."""
    a, b, c, d = (V(i) for i in n)
    fs = frozenset
    if t == 0:
        return [raw([a], [b]), raw([a], [c])]
    if t == 1:
        return [raw([a], [b]), raw([b])]
    if t == 2:
        return [raw([a, b], [c]), raw([c], [d]), raw([d])]
    if t == 3:
        return [raw([a], [b], pop=Pi1), raw([b])]
    if t == 4:
        return [Sum(raw([a, b]), fs([b])), raw([c])]
    if t == 5:
        return [Fraction(raw([a, b]), raw([b])), raw([c])]
    if t == 6:
        return [Sum(raw([a]), fs([a])), raw([b], [c])]
    if t == 7:
        return [raw([a]), Fraction(raw([b]), One())]
    if t == 8:
        return [raw([a], [b], do=d), raw([b])]
    if t == 9:
        return [Sum(Product((raw([a], [c]), raw([c]))), fs([c])), raw([b], [a])]
    if t == 10:
        return [raw([a], [b, c]), raw([b], [c]), raw([a], [c])]
    if t == 11:
        return [raw([a], [b], pop=Pi1), raw([a], [b]), raw([b], pop=Pi1)]
    if t == 12:
        return [raw([a], [b]), raw([b], [c]), raw([c], [d]), raw([d])]
    if t == 13:
        return [raw([a], [b]), Sum(raw([b, c]), fs([c])), raw([c], [d]), raw([a], [d])]
    y, z = Variable("Y"), Variable("Z")
    if t == 14:  # factors that differ only in a two-element subscript set of the child
        return [raw([y.intervene([a, d])], [z]), raw([y.intervene([b, c])], [z])]
    if t == 15:  # the same for unconditioned factors and for a parent; one single-subscript factor
        return [raw([y.intervene([a, d])]), raw([y.intervene([b, c])]), raw([z], [y.intervene([d, a])])]
    if t == 16:  # two sums over the same body with different ranges (their sort keys must not tie)
        return [Sum(raw([a], [b, c]), fs([b])), Sum(raw([a], [b, c]), fs([c])), raw([d])]
    if t == 17:  # a factor that canonicalises to a product itself (a fraction over One)
        return [raw([a]), Fraction(Product((raw([b]), raw([c], [d]))), One())]
    if t == 18:  # numerator and denominator share a factor that is spelled differently before canonicalisation
        return [Fraction(Product((raw([b, a]), raw([c]))), raw([a, b])), raw([d])]
    if t == 19:  # the same with the shared factor under a Sum and with permuted parents
        return [Fraction(Product((Sum(raw([a], [c, b]), fs([c])), raw([d]))), Sum(raw([a], [b, c]), fs([c]))), raw([b])]
    if t == 20:  # two sums over one body whose ranges are two-element sets (a key that reads a set in hash order ties or flips)
        return [Sum(raw([y], [a, b, c, d]), fs([a, d])), Sum(raw([y], [a, b, c, d]), fs([b, c]))]
    if t == 21:  # overlapping three-element ranges next to a plain factor
        return [Sum(raw([y], [a, b, c, d]), fs([a, b, c])), Sum(raw([y], [a, b, c, d]), fs([b, c, d])), raw([z], [y])]
    if t == 22:  # two sums of products that differ only in a LATER inner factor (a key that looks at the first factor ties)
        return [Sum(Product((raw([a]), raw([b], [a, c]))), fs([a])), Sum(Product((raw([a]), raw([d], [a, c]))), fs([a]))]
    if t == 23:  # the same for fractions with a product numerator, next to a plain factor
        return [Fraction(Product((raw([a]), raw([b], [a]))), raw([c])), Fraction(Product((raw([a]), raw([d], [a]))), raw([c])), raw([c])]
    raise ValueError(t)


N_TEMPLATES = 24
PERMS4 = list(itt.permutations(range(4)))


def present(factors, p, nest, rev):
    """One presentation of the product of the factors: factor order p, nesting nest, child/parent order rev."""
    k = len(factors)
    perms = PERMS4 if k == 4 else PERMS3 if k == 3 else PERMS2
    fs = [factors[i] for i in perms[(p * 5) % len(perms)]] if k == 4 else [factors[i] for i in perms[p % len(perms)]]
    if rev:
        fs = [flip(f) for f in fs]
    if k == 4:
        if nest == 1:  # three levels, right-deep
            return Product((fs[0], Product((fs[1], Product((fs[2], fs[3]))))))
        if nest == 2:  # three levels, left-deep
            return Product((Product((Product((fs[0], fs[1])), fs[2])), fs[3]))
        return Product(tuple(fs))
    if k == 3 and nest == 1:
        return Product((Product((fs[0], fs[1])), fs[2]))
    if k == 3 and nest == 2:
        return Product((fs[0], Product((fs[1], fs[2]))))
    return Product(tuple(fs))


def flip(e):
    if isinstance(e, Probability):
        return e._new(Distribution(children=tuple(reversed(e.children)), parents=tuple(reversed(e.parents))))
    if isinstance(e, Product):
        return Product(tuple(flip(f) for f in reversed(e.expressions)))
    if isinstance(e, Sum):
        return Sum(flip(e.expression), e.ranges)
    if isinstance(e, Fraction):
        return Fraction(flip(e.numerator), flip(e.denominator))
    return e


def ordering(o, n):
    # Y and Z (used by templates 14 and 15) are always covered; an ordering may cover more than the expression needs
    return [V(n[i]) for i in ORDERINGS[o]] + [Variable("Y"), Variable("Z")]


def idempotent(t: int, m: int, o: int) -> bool:
    """
    pre: 0 <= t < 24 and 0 <= m < 24 and 0 <= o < 3
    post: __return__
    """
    n = NAME_PERMS[m]
    e = present(template(t, n), 0, 1, 0)
    od = ordering(o, n)
    c1 = canonicalize(e, od)
    c2 = canonicalize(c1, od)
    return c2 == c1 and str(c2) == str(c1)


def presentation_invariant(t: int, m: int, o: int, p: int, nest: int, rev: int) -> bool:
    """
    pre: 0 <= t < 24 and 0 <= m < 24 and 0 <= o < 3 and 0 <= p < 6 and 0 <= nest < 3 and 0 <= rev < 2
    post: __return__
    """
    n = NAME_PERMS[m]
    fs = template(t, n)
    od = ordering(o, n)
    base = canonicalize(Product(tuple(fs)), od)
    other = canonicalize(present(fs, p, nest, rev), od)
    return other == base and str(other) == str(base)


def keys_total(t: int, u: int, m: int) -> bool:
    """
    pre: 0 <= t < 24 and 0 <= u < 24 and 0 <= m < 24
    post: __return__
    """
    n = NAME_PERMS[m]
    od = ordering(0, n)
    xs = [canonicalize(f, od) for f in template(t, n) + template(u, n)]
    for x in xs:
        for y in xs:
            lt, gt = x < y, y < x  # must not raise
            if x != y and not lt and not gt and x._get_key() == y._get_key():
                return False  # two different canonical factors are indistinguishable for sorting
    return True


def reach_twin(t: int, m: int) -> bool:
    """
    pre: 0 <= t < 24 and 0 <= m < 24
    post: __return__
    """
    n = NAME_PERMS[m]
    return len(template(t, n)) < 0  # must be refuted: shows the harness reaches its post-condition


def skeleton(e):
    """A rendering of an expression that keeps every order the canonical form fixes (factors, children, parents)
    and sorts what is a set in the object (subscripts, sum ranges): equal objects give equal skeletons under
    every hash seed."""
    from y0.dsl import CounterfactualVariable, PopulationProbability

    def var(v):
        subs = sorted((i.name, i.star) for i in v.interventions) if isinstance(v, CounterfactualVariable) else []
        return [v.name, v.star, subs]

    if isinstance(e, Probability):
        pop = e.population.name if isinstance(e, PopulationProbability) else None
        return ["P", pop, [var(v) for v in e.children], [var(v) for v in e.parents]]
    if isinstance(e, Product):
        return ["*", [skeleton(f) for f in e.expressions]]
    if isinstance(e, Sum):
        return ["Sum", sorted(var(v) for v in e.ranges), skeleton(e.expression)]
    if isinstance(e, Fraction):
        return ["/", skeleton(e.numerator), skeleton(e.denominator)]
    return [type(e).__name__]


def canonical_skeletons(m_max=4, o_max=2):
    """Canonical forms of every template under the first name assignments / orderings / two presentations, as
    skeletons: compared across PYTHONHASHSEED values by the check (the forms must not depend on the seed)."""
    out = []
    for t in range(N_TEMPLATES):
        for m in range(m_max):
            n = NAME_PERMS[m]
            for o in range(o_max):
                od = ordering(o, n)
                for p, nest, rev in ((0, 0, 0), (1, 1, 1)):
                    out.append([t, m, o, p, nest, rev, skeleton(canonicalize(present(template(t, n), p, nest, rev), od))])
    return out

"""C11 — canonical form is a true normal form (engine CH: CrossHair on vf/ch/c11_harness.py)."""

from __future__ import annotations

import ast
import os
import re
import subprocess
import sys
import time
from pathlib import Path

from ..common import NPROC, REPO, ROOT, Report, Violation, short, tier

PROP = "C11"
HARNESS = ROOT / "vf" / "ch" / "c11_harness.py"
FUNCS = ["idempotent", "presentation_invariant", "keys_total"]
TWIN = "reach_twin"


def line_of(fn: str) -> int:
    tree = ast.parse(HARNESS.read_text())
    for node in tree.body:
        if isinstance(node, ast.FunctionDef) and node.name == fn:
            return node.body[0].lineno  # a line inside the def
    raise KeyError(fn)


def specialised_harness(t: int, workdir: Path, m_max: int = 24, o_max: int = 3) -> Path:
    """Copy of the harness in which the template index is fixed (one CrossHair process per template) and the
    bounds on the name-assignment and ordering indices are those of the tier."""
    src = HARNESS.read_text()
    src = src.replace("pre: 0 <= t < 24 and", f"pre: t == {t} and")
    src = src.replace("0 <= m < 24", f"0 <= m < {m_max}").replace("0 <= o < 3", f"0 <= o < {o_max}")
    p = workdir / f"c11_t{t}_{m_max}_{o_max}.py"
    p.write_text(src)
    return p


def run_crosshair(path: Path, fn: str, timeout_s: int, hashseed: str):
    src = path.read_text()
    tree = ast.parse(src)
    line = next(n.body[0].lineno for n in tree.body if isinstance(n, ast.FunctionDef) and n.name == fn)
    env = dict(os.environ, PYTHONHASHSEED=hashseed, PYTHONPATH=f"{ROOT}:{REPO}/src")
    cmd = [sys.executable, "-m", "crosshair", "check", "--report_all", "--per_condition_timeout", str(timeout_s), "--per_path_timeout", "30", f"{path}:{line}"]
    return subprocess.Popen(cmd, stdout=subprocess.PIPE, stderr=subprocess.STDOUT, text=True, env=env, cwd=str(ROOT))


def parse_cex(text: str):
    """'false when calling presentation_invariant(0, 0, 0, 1, 0, 0) (which returns False)' -> (fn, args)"""
    m = re.search(r"when calling (\w+)\(([^)]*)\)", text)
    if not m:
        return None
    args = []
    for part in m.group(2).split(","):
        part = part.strip()
        if "=" in part:
            part = part.split("=", 1)[1].strip()
        try:
            args.append(int(part))
        except ValueError:
            return None
    return m.group(1), args


def replay_native(fn: str, args, hashseed="0"):
    """Run the harness function natively in a fresh interpreter (so the hash seed applies)."""
    code = f"import sys; sys.path[:0]=['{ROOT}','{REPO}/src']; from vf.ch import c11_harness as h\ntry:\n    r = h.{fn}(*{args!r})\nexcept Exception as e:\n    print('EXC', type(e).__name__, e); raise SystemExit(1)\nprint('RESULT', r); raise SystemExit(0 if r else 1)"
    p = subprocess.run([sys.executable, "-c", code], capture_output=True, text=True, env=dict(os.environ, PYTHONHASHSEED=hashseed))
    return p.returncode != 0, (p.stdout + p.stderr).strip()[-300:]


def run() -> int:
    t = tier()
    rep = Report(PROP, "other")
    templates = list(range(24))
    seeds = ["0"] if t == "quick" else ["0", "4242"]  # the cross-seed corpus below covers 12 more seeds natively
    funcs = FUNCS
    timeout_s = 240 if t == "quick" else 900
    workdir = ROOT / "work" / "c11"
    workdir.mkdir(parents=True, exist_ok=True)
    rep.functions = [
        "y0.mutate.canonicalize / Canonicalizer (canonicalize_expr.py), Product.safe sorting, _flatten_product",
        "the _get_key() sort keys of Probability, PopulationProbability, Sum, Product, Fraction, One (dsl.py) and Expression.__lt__",
        "executed under CrossHair 0.0.110 (symbolic execution with z3) through vf/ch/c11_harness.py",
    ]
    rep.bounds = {
        "templates": "24 product templates of 2-4 factors (two with composite factors (sums of products / fractions) that differ only in a later inner factor; two with sums over one body whose ranges are two- and three-element sets; two with a fraction whose numerator and denominator share a factor spelled differently; (two with counterfactual variables carrying two-element subscript sets, one with two sums over the same body and different ranges, one with a factor that canonicalises to a product) (the 4-factor ones are also presented with three levels of product nesting, left- and right-deep; idempotence is checked on a nested presentation) (same-first-child conditionals, population-tagged next to plain, sums, a sum collapsing to One, fractions incl. a One denominator, interventional terms)",
        "names": "assignments of the distinct names A,B,C,D to the template slots: quick the first 4, thorough all 24",
        "orderings": "quick 2, thorough 3",
        "presentations": "all factor permutations x 3 nestings x child/parent order reversed or not",
        "PYTHONHASHSEED": seeds,
        "per_condition_timeout_s": timeout_s,
    }
    rep.assumptions = [
        "inputs are symbolic ints (indices into concrete tables), so every path of the exploration is one index tuple: CrossHair acts as a solver-driven exhaustive explorer with an exhaustiveness certificate ('Confirmed over all paths'), not as a generaliser",
        "'Not confirmed' / 'Unable to meet precondition' are inconclusive; a reachability twin whose post-condition is False must be refuted for every template",
    ]
    rep.rule = "conditions = (function, template, hash seed); discharged = CrossHair reports 'Confirmed over all paths'; non-trivial = the condition's reachability twin was refuted"
    jobs = []
    for hs in seeds:
        for tt in templates:
            path = specialised_harness(tt, workdir, *((4, 2) if t == "quick" else (24, 3)))
            for fn in funcs + ([TWIN] if hs == seeds[0] else []):
                jobs.append((fn, tt, hs, path))
    running, results = [], []
    t0 = time.time()
    queue = list(jobs)
    while queue or running:
        while queue and len(running) < NPROC:
            fn, tt, hs, path = queue.pop(0)
            running.append((fn, tt, hs, run_crosshair(path, fn, timeout_s, hs), time.time()))
        time.sleep(0.2)
        still = []
        for fn, tt, hs, proc, st in running:
            if proc.poll() is None:
                if time.time() - st > timeout_s * 1.5 + 120:
                    proc.kill()
                    results.append((fn, tt, hs, "TIMEOUT (killed)", time.time() - st))
                else:
                    still.append((fn, tt, hs, proc, st))
            else:
                results.append((fn, tt, hs, proc.stdout.read(), time.time() - st))
        running = still
    twins_ok = set()
    for fn, tt, hs, out, dt in results:
        if fn == TWIN:
            rep.count("twin_runs")
            if "false when calling" in out or "error" in out.lower():
                twins_ok.add(tt)
            else:
                rep.harness_errors.append(f"reachability twin not refuted for template {tt}: {short(out, 200)}")
    for fn, tt, hs, out, dt in results:
        if fn == TWIN:
            continue
        rep.cases += 1
        rep.obligations += 1
        rep.solver_s += dt
        key = f"{fn} template={tt} hashseed={hs}"
        if "Confirmed over all paths" in out and "false when" not in out:
            rep.discharged += 1
            if tt in twins_ok:
                rep.nontrivial.add(key)
            rep.count("confirmed")
            if len(rep.samples) < 8:
                rep.add_sample({"condition": key, "crosshair": "Confirmed over all paths", "seconds": round(dt, 1)})
            continue
        cex = parse_cex(out) if ("false when calling" in out or "when calling" in out) else None
        if cex is not None:
            rep.refuted += 1
            bad, shown = replay_native(cex[0], cex[1], hs)
            if bad:
                what = f"{cex[0]}{tuple(cex[1])} [template, name assignment, ordering, (permutation, nesting, reversal)] fails natively under PYTHONHASHSEED={hs}: {shown}"
                rep.add_violation(Violation(PROP, [f"{cex[0]} template={tt}"], what, {"property": PROP, "fn": cex[0], "args": cex[1], "hashseed": hs}))
            else:
                rep.harness_errors.append(f"{key}: CrossHair counterexample did not reproduce natively: {cex}")
        else:
            rep.inconclusive += 1
            rep.inconclusive_samples.append({"condition": key, "output": short(out.strip(), 160)})
    # hash-seed clause: the canonical forms of the template corpus, rendered seed-independently, must be identical in
    # fresh interpreters started under different PYTHONHASHSEED values (a native differential run, not a solver query:
    # the hash seed is not a value CrossHair can make symbolic)
    seeds_x = ["0", "1", "2", "3", "7"] if t == "quick" else [str(i) for i in range(12)]
    outs = {}
    for hs in seeds_x:
        code = f"import sys, json; sys.path[:0]=['{ROOT}','{REPO}/src']; from vf.ch import c11_harness as h; print(json.dumps(h.canonical_skeletons()))"
        pr = subprocess.run([sys.executable, "-c", code], capture_output=True, text=True, env=dict(os.environ, PYTHONHASHSEED=hs))
        if pr.returncode != 0:
            rep.harness_errors.append(f"cross-seed corpus failed under PYTHONHASHSEED={hs}: {short(pr.stderr, 300)}")
            continue
        outs[hs] = {tuple(r[:6]): r[6] for r in __import__("json").loads(pr.stdout.strip().splitlines()[-1])}
    if outs:
        base_hs = sorted(outs)[0]
        rep.cases += len(outs[base_hs])
        rep.nontrivial.add("cross-seed-corpus")
        rep.extra["cross_seed"] = {"seeds": sorted(outs), "expressions": len(outs[base_hs]), "note": "native differential run (not solver-decided)"}
        reported = set()
        for hs, d in outs.items():
            for k, sk in d.items():
                if sk != outs[base_hs].get(k) and k[0] not in reported:
                    reported.add(k[0])
                    rep.add_violation(Violation(PROP, [f"cross-seed template={k[0]}"], f"canonical form of template {k[0]} (name assignment {k[1]}, ordering {k[2]}, presentation {k[3:]}) differs between PYTHONHASHSEED={base_hs} and {hs}: {short(outs[base_hs].get(k), 150)} vs {short(sk, 150)}", {"property": PROP, "fn": "cross_seed", "args": list(k), "seeds": [base_hs, hs]}))
    rep.extra["explanation"] = "CrossHair (z3-backed symbolic execution of Python) explores the harness functions over symbolic int indices; a condition is discharged only when CrossHair reports 'Confirmed over all paths'; counterexamples are replayed natively in a fresh interpreter with the same hash seed."
    rep.extra["crosshair_wall_s"] = round(time.time() - t0, 1)
    return rep.finish()


def replay(payload: dict) -> int:
    if payload.get("fn") == "cross_seed":
        import json

        res = []
        for hs in payload["seeds"]:
            code = f"import sys, json; sys.path[:0]=['{ROOT}','{REPO}/src']; from vf.ch import c11_harness as h; print(json.dumps([r for r in h.canonical_skeletons() if r[:6] == {payload['args']!r}]))"
            pr = subprocess.run([sys.executable, "-c", code], capture_output=True, text=True, env=dict(os.environ, PYTHONHASHSEED=hs))
            res.append(pr.stdout.strip().splitlines()[-1] if pr.stdout.strip() else pr.stderr[-200:])
            print(f"PYTHONHASHSEED={hs}: {res[-1][:300]}")
        print("reproduced" if len(set(res)) > 1 else "not reproduced")
        return 1 if len(set(res)) > 1 else 0
    bad, shown = replay_native(payload["fn"], payload["args"], payload.get("hashseed", "0"))
    print(f"{payload['fn']}{tuple(payload['args'])}: {shown}")
    print("reproduced" if bad else "not reproduced")
    return 1 if bad else 0

"""C03 — IDC estimands equal the true conditional interventional distribution (engine SEM)."""

from __future__ import annotations

import itertools as itt

from ..common import Report, Unsupported, Violation, pmap, seed, short, tier
from ..graphs import CURATED, GSpec, family
from ..sem import exact
from ..sem.denote import Denoter, free_names
from ..sem.harness import envs_for, grid_params, hashseed, params_from_json, params_to_json
from ..sem.l2 import TARGET, SymL2
from ..sem.rat import Decider
from .c01 import obs_vocab

PROP = "C03"
TIMEOUT_MS = {"quick": 5000, "thorough": 30000}


def xyz_queries(nodes):
    """All pairwise disjoint (X, Y, Z) with Y and Z non-empty (X possibly empty)."""
    nodes = list(nodes)
    for roles in itt.product("xyz-", repeat=len(nodes)):
        if "y" not in roles or "z" not in roles:
            continue
        yield tuple(frozenset(n for n, r in zip(nodes, roles) if r == k) for k in "xyz")


def run_idc(g: GSpec, X, Y, Z):
    from y0.algorithm.identify import identify_outcomes
    from y0.dsl import Variable

    res = identify_outcomes(
        g.to_nx(), {Variable(x) for x in X}, {Variable(y) for y in Y}, conditions={Variable(z) for z in Z}
    )
    if len(Z) == 1 and len(Y) == 1 and X:
        # the documented single-Variable form of the arguments must give the same answer
        one = lambda S: Variable(next(iter(S))) if len(S) == 1 else {Variable(s) for s in S}
        alt = identify_outcomes(g.to_nx(), one(X), one(Y), conditions=one(Z))
        if alt != res:
            raise AssertionError(f"identify_outcomes gives {alt} when singletons are passed as bare Variables but {res} when passed as sets")
    return res


def truth(model_or_world, X, Y, Z, env, exact_mode=False):
    do = {x: env[x] for x in X}
    yz = {v: env[v] for v in list(Y) + list(Z)}
    z = {v: env[v] for v in Z}
    if exact_mode:
        return model_or_world.prob(TARGET, do, yz) / model_or_world.prob(TARGET, do, z)
    return model_or_world.prob_rat(TARGET, do, yz) / model_or_world.prob_rat(TARGET, do, z)


def replay_values(g, X, Y, Z, est, env, params):
    w = exact.ExactL2(g, params)
    try:
        a = exact.evaluate(est, w, env)
    except exact.Undefined as e:
        return (f"undefined: {e}", "n/a")
    b = truth(w, X, Y, Z, env, exact_mode=True)
    return (str(a), str(b)) if a != b else None


def check_case(g, X, Y, Z, est, model, den, env_mode, timeout_ms):
    out = {"queries": 0, "unsat": 0, "sat": 0, "unknown": 0, "secs": 0.0, "violation": None, "unknown_envs": []}
    try:
        names = free_names(est) | set(X) | set(Y) | set(Z)
    except Unsupported as e:
        out["violation"] = {"kind": "vocabulary", "why": str(e)}
        return out
    for env in envs_for(names, model.card, env_mode):
        try:
            lhs = den.ev(est, env, env)
        except Unsupported as e:
            out["violation"] = {"kind": "vocabulary", "why": str(e), "env": env}
            return out
        rhs = truth(model, X, Y, Z, env)
        verdict, m, dt = Decider(model.constraints, timeout_ms, model.params).differ(lhs, rhs)
        out["queries"] += 1
        out["secs"] += dt
        out[verdict] += 1
        if verdict == "unknown":
            out["unknown_envs"].append(env)
        if verdict == "sat":
            params = model.model_to_params(m)
            rep = replay_values(g, X, Y, Z, est, env, params)
            for shift in range(12):
                if rep is not None:
                    break
                params = grid_params(model.params, shift)
                rep = replay_values(g, X, Y, Z, est, env, params)
            if rep is None:
                out["violation"] = {"kind": "noreplay", "env": env}
            else:
                out["violation"] = {"kind": "wrong", "env": env, "params": params_to_json(params), "est": rep[0], "truth": rep[1]}
            return out
    return out


def work(job):
    g, env_mode, timeout_ms = job
    model = SymL2(g)
    den = Denoter(model, vocab=obs_vocab(g.nodes))
    res = []
    for X, Y, Z in xyz_queries(g.nodes):
        X, Y, Z = sorted(X), sorted(Y), sorted(Z)
        rec = {"g": g.to_json(), "X": X, "Y": Y, "Z": Z}
        try:
            est = run_idc(g, X, Y, Z)
        except Exception as e:  # noqa: BLE001
            rec["status"] = "crash"
            rec["exc"] = f"{type(e).__name__}: {short(e, 200)}"
            res.append(rec)
            continue
        if est is None:
            rec["status"] = "unidentifiable"
        else:
            rec["status"] = "estimand"
            rec["est"] = str(est)
            rec.update(check_case(g, X, Y, Z, est, model, den, env_mode, timeout_ms))
        res.append(rec)
    return res


def jobs_for(t):
    jobs = []
    if t == "quick":
        for g in family(3):
            jobs.append((g, "all", TIMEOUT_MS[t]))
        for name, g in CURATED.items():
            if len(g.nodes) <= 4:
                jobs.append((g, "diag", TIMEOUT_MS[t]))
        for i, g in enumerate(family(4, labellings=("fwd",), n_min=4)):
            if i % 32 == seed() % 32:
                jobs.append((g, "diag", TIMEOUT_MS[t]))
    else:
        for g in family(3):
            jobs.append((g, "all", TIMEOUT_MS[t]))
        for i, g in enumerate(family(4, labellings=("fwd",), n_min=4)):
            if i % 4 == seed() % 4:
                jobs.append((g, "diag", TIMEOUT_MS[t]))
        for name, g in CURATED.items():
            jobs.append((g, "diag", TIMEOUT_MS[t]))
    return jobs


def run() -> int:
    t = tier()
    rep = Report(PROP, "translation_validation")
    rep.functions = [
        "y0.algorithm.identify.identify_outcomes(..., conditions=Z) -> id_c.idc, rule_2_of_do_calculus_applies, id_std.identify (run natively)",
        "Expression.normalize_marginalize / marginalize (final normalisation)",
        "returned Expression -> z3 polynomial terms (vf/sem/denote.py)",
    ]
    rep.bounds = {
        "graphs": "quick: every ADMG <=3 nodes (two labellings) + curated 4-node graphs + 1/32 of the 4-node classes; thorough: every ADMG <=3 nodes under two labellings, 1/4 of the 4-node classes (slice chosen by VERIF_SEED) + curated list incl. 5-node graphs",
        "queries": "all pairwise disjoint (X, Y, Z), Y and Z non-empty, X possibly empty",
        "models": "all positive binary SCMs, one binary latent per bidirected edge",
        "value_assignments": "<=3 nodes: all; larger: the all-equal assignments",
        "per_query_timeout_ms": TIMEOUT_MS[t],
        "PYTHONHASHSEED": hashseed(),
    }
    rep.assumptions = [
        "semantics of expressions as in DESIGN.md §2; equality decided as est * P(z|do x) = P(y,z|do x) (cross-multiplied)",
        "z3 QF_NRA verdicts; unknown = inconclusive",
        "totality clause (no exception other than the unidentifiable refusal) is decided by observing the real run on every enumerated query, not by the solver",
    ]
    rep.rule = "cases = (graph, X, Y, Z) given to identify_outcomes; non-trivial = an estimand was returned and solver-checked; distinct by (graph key, X, Y, Z)"
    for job, st, res in pmap(work, jobs_for(t)):
        if st != "ok":
            rep.harness_errors.append(short(res, 600))
            continue
        for r in res:
            rep.cases += 1
            g = GSpec.from_json(r["g"])
            key = f"{g.key()} P({','.join(r['Y'])} | do({','.join(r['X'])}), {','.join(r['Z'])})"
            rep.count(r["status"])
            if r["status"] == "crash":
                payload = {"property": PROP, "kind": "crash", "graph": r["g"], "X": r["X"], "Y": r["Y"], "Z": r["Z"], "exc": r["exc"], "hashseed": hashseed()}
                exc_type = r["exc"].split(":")[0]
                rep.add_violation(Violation(PROP, [key, f"crash:{exc_type}"], f"IDC raised {r['exc']} for {key}", payload))
                continue
            if r["status"] != "estimand":
                continue
            rep.nontrivial.add(key)
            rep.obligations += r["queries"]
            rep.discharged += r["unsat"]
            rep.refuted += r["sat"]
            rep.inconclusive += r["unknown"]
            rep.solver_s += r["secs"]
            if r["unknown"]:
                rep.inconclusive_samples.append({"case": key, "envs": r["unknown_envs"][:2]})
            if len(rep.samples) < 6 and r["queries"] and "/" in r["est"] and r["X"]:
                rep.add_sample({"case": key, "estimand": r["est"], "queries": r["queries"], "unsat": r["unsat"]})
            v = r["violation"]
            if v is None:
                continue
            if v["kind"] == "noreplay":
                rep.harness_errors.append(f"sat model did not replay for {key}")
                continue
            payload = {"property": PROP, "kind": "idc", "graph": r["g"], "X": r["X"], "Y": r["Y"], "Z": r["Z"], "hashseed": hashseed(), "estimand_seen": r["est"]}
            payload.update(v)
            what = f"IDC returned {short(r['est'], 140)} for {key}: " + (
                f"value {v['est']} != P(y|do x, z) = {v['truth']} at {v['env']}" if v["kind"] == "wrong" else v["why"]
            )
            rep.add_violation(Violation(PROP, [key], what, payload))
    from .. import history_runs

    history_runs.run(rep, PROP)
    return rep.finish()


def replay(payload: dict) -> int:
    if payload.get("kind") == "history":
        from .. import history_runs

        return history_runs.replay(PROP, payload)
    g = GSpec.from_json(payload["graph"])
    X, Y, Z = payload["X"], payload["Y"], payload["Z"]
    print("graph", g.key(), "X", X, "Y", Y, "Z", Z)
    try:
        est = run_idc(g, X, Y, Z)
    except Exception as e:  # noqa: BLE001
        print(f"IDC raised {type(e).__name__}: {e}: reproduced" if payload["kind"] == "crash" else f"raised {e}")
        return 1
    print("estimand returned by y0 now:", est)
    if est is None or payload["kind"] == "crash":
        print("not reproduced")
        return 0
    if payload["kind"] != "wrong":
        print("recorded:", payload.get("why"))
        return 1
    rv = replay_values(g, X, Y, Z, est, payload["env"], params_from_json(payload["params"]))
    if rv is None:
        print("values agree on the recorded model: not reproduced")
        return 0
    print(f"estimand value {rv[0]} != P(y | do x, z) = {rv[1]} at {payload['env']}: reproduced")
    return 1

"""C14 — mixed-graph surgery operations meet their set-theoretic definitions (engine RSI)."""

from __future__ import annotations

import itertools as itt
import time

import z3

from ..common import HarnessError, Report, Unsupported, Violation, pmap, seed, short, tier
from ..rsi import models as M
from ..rsi.harness import SymInput, eval_set, graph_differs, raise_guard, set_differs, solve, sym_subset, universe
from ..rsi.interp import Interp, SymMixed
from ..rsi.sym import SSet, band, biff, bnot, bor, guard_of, is_sym, lift

PROP = "C14"
OPS = [
    "subgraph", "remove_in_edges", "remove_out_edges", "remove_nodes_from", "ancestors_inclusive",
    "descendants_inclusive", "districts", "get_district", "get_markov_pillow", "get_markov_blanket", "disorient",
    "moralize", "moral_graph", "get_no_effect_on_outcomes", "is_connected",
    "pre", "get_nodes_in_directed_paths", "intervene", "topological_sort",
]


# ------------------------------------------------------------------------- concrete specs (replay side)


def c_anc(di, S):
    out = set(S)
    while True:
        new = {u for u, v in di if v in out} - out
        if not new:
            return out
        out |= new


def c_desc(di, S):
    return c_anc([(v, u) for u, v in di], S)


def c_districts(nodes, bi):
    left, out = set(nodes), set()
    while left:
        comp = {left.pop()}
        while True:
            new = {b for a, b in bi if a in comp} | {a for a, b in bi if b in comp}
            new -= comp
            if not new:
                break
            comp |= new
        left -= comp
        out.add(frozenset(comp))
    return out


def concrete_spec(op, nodes, di, bi, S, extra=None):
    nodes, S = set(nodes), set(S)
    bis = {frozenset(e) for e in bi}
    if op == "subgraph":
        return ("graph", S, {e for e in di if e[0] in S and e[1] in S}, {e for e in bis if e <= S})
    if op == "remove_in_edges":
        return ("graph", nodes, {e for e in di if e[1] not in S}, {e for e in bis if not (e & S)})
    if op == "remove_out_edges":
        return ("graph", nodes, {e for e in di if e[0] not in S}, bis)
    if op == "remove_nodes_from":
        return ("graph", nodes - S, {e for e in di if not (set(e) & S)}, {e for e in bis if not (e & S)})
    if op == "ancestors_inclusive":
        return ("set", c_anc(di, S))
    if op == "descendants_inclusive":
        return ("set", c_desc(di, S))
    if op == "districts":
        return ("set", c_districts(nodes, bi))
    if op == "get_district":
        return ("set", next(d for d in c_districts(nodes, bi) if extra in d))
    if op == "get_markov_pillow":
        return ("set", {u for u, v in di if v in S} - S)
    if op == "get_markov_blanket":
        ch = {v for u, v in di if u in S}
        return ("set", ({u for u, v in di if v in S} | ch | {u for u, v in di if v in ch}) - S)
    if op == "disorient":
        return ("ugraph", nodes, {frozenset(e) for e in di} | bis)
    if op in ("moralize", "moral_graph"):
        dist = c_districts(nodes, bi)
        adj = set()
        for d in dist:
            clique = set(d) | {u for u, v in di if v in d}
            adj |= {frozenset(p) for p in itt.combinations(clique, 2)}
        if op == "moral_graph":
            return ("ugraph", nodes, adj | {frozenset(e) for e in di} | bis)
        return ("moral", nodes, set(di), bis, adj | {frozenset(e) for e in di} | bis)
    if op == "get_no_effect_on_outcomes":
        X, Y = S, set(extra)
        cut = [e for e in di if e[1] not in X]
        return ("set", nodes - X - c_anc(cut, Y))
    if op == "is_connected":
        return ("bool", len(c_districts(nodes, bi)) == 1)
    if op == "pre":
        order = list(extra)
        out = []
        for n in order:
            if n in S:
                break
            out.append(n)
        return ("list", out)
    if op == "get_nodes_in_directed_paths":
        T = set(extra)
        out = set()
        succ = {}
        for u, v in di:
            succ.setdefault(u, []).append(v)

        def walk(path):
            if path[-1] in T:
                out.update(path)  # a simple path from a source to a target (may continue to other targets)
            for w in succ.get(path[-1], []):
                if w not in path:
                    walk(path + [w])

        for s0 in S:
            walk([s0])
        return ("set", out)
    if op == "intervene":
        from y0.dsl import Intervention

        iv = [Intervention(x.name, False) for x in S]
        f = lambda v: v.intervene(iv) if iv else v
        return ("graph", {f(v) for v in nodes}, {(f(u), f(v)) for u, v in di if v not in S}, {frozenset((f(u), f(v))) for u, v in (tuple(e) for e in bis) if u not in S and v not in S})
    if op == "topological_sort":
        return ("topo", nodes, set(di))
    raise ValueError(op)


# operations documented to accept a single Variable as well as an iterable
ACCEPT_VARIABLE = ("subgraph", "remove_in_edges", "remove_out_edges", "remove_nodes_from", "ancestors_inclusive", "descendants_inclusive", "get_markov_blanket")


def native_run(op, g, S, extra=None, form="set"):
    """Run the real operation; returns a comparable value in the format of concrete_spec.  `form` selects how the
    node set is handed over: a set, a list (reversed), a frozenset, or - for a singleton - the bare Variable."""
    from y0.graph import NxMixedGraph

    def gtuple(r):
        return ("graph", set(r.nodes()), set(r.directed.edges()), {frozenset(e) for e in r.undirected.edges()}, set(r.undirected.nodes()))

    arg = {"set": set, "list": lambda x: list(reversed(list(x))), "frozenset": frozenset, "variable": lambda x: list(x)[0]}[form](S)
    if op in ("subgraph", "remove_in_edges", "remove_out_edges", "remove_nodes_from"):
        r = getattr(g, op)(arg)
        t = gtuple(r)
        return t[:4] if t[1] == t[4] else ("graph-node-sets-differ", t[1], t[4])
    if op in ("ancestors_inclusive", "descendants_inclusive", "get_markov_pillow", "get_markov_blanket"):
        return ("set", set(getattr(g, op)(arg)))
    if op == "districts":
        return ("set", set(g.districts()))
    if op == "get_district":
        return ("set", set(g.get_district(extra)))
    if op == "disorient":
        r = g.disorient()
        return ("ugraph", set(r.nodes()), {frozenset(e) for e in r.edges()})
    if op == "moral_graph":
        r = g.moralize().disorient()
        return ("ugraph", set(r.nodes()), {frozenset(e) for e in r.edges()})
    if op == "moralize":
        r = g.moralize()
        d = r.disorient()
        return ("moral", set(r.nodes()), set(r.directed.edges()), None, {frozenset(e) for e in d.edges()}, {frozenset(e) for e in r.undirected.edges()})
    if op == "get_no_effect_on_outcomes":
        return ("set", set(g.get_no_effect_on_outcomes(set(S), set(extra))))
    if op == "is_connected":
        return ("bool", bool(g.is_connected()))
    if op == "pre":
        return ("list", list(g.pre(set(S), list(extra))))
    if op == "get_nodes_in_directed_paths":
        from y0.graph import get_nodes_in_directed_paths

        return ("set", set(get_nodes_in_directed_paths(g, set(S), set(extra))))
    if op == "intervene":
        from y0.dsl import Intervention

        if not S:
            return ("graph", set(g.nodes()), set(g.directed.edges()), {frozenset(e) for e in g.undirected.edges()})
        r = g.intervene({Intervention(x.name, False) for x in S})
        return ("graph", set(r.nodes()), set(r.directed.edges()), {frozenset(e) for e in r.undirected.edges()})
    if op == "topological_sort":
        return ("topo", list(g.topological_sort()))
    raise ValueError(op)


def native_matches(op, got, want):
    if op == "topological_sort":
        order, nodes, di = got[1], want[1], want[2]
        pos = {n: i for i, n in enumerate(order)}
        return sorted(order, key=str) == sorted(nodes, key=str) and len(set(order)) == len(order) and all(pos[u] < pos[v] for u, v in di)
    if op == "moralize":
        # nodes, directed edges kept; undirected part contains the old one; the flattened graph is the moral graph
        return got[1] == want[1] and got[2] == want[2] and got[4] == want[4] and want[3] <= got[5]
    return tuple(got) == tuple(want)


# ------------------------------------------------------------------------- symbolic side


def spec_closure(inp: SymInput, S: SSet, backwards=True, cut=None):
    """Reflexive-transitive closure by N rounds of frontier expansion (independent of the model's Warshall)."""
    U = inp.U
    cur = {v: S.mem(v) for v in U}
    for _ in range(len(U) - 1):
        nxt = {}
        for v in U:
            steps = []
            for w in U:
                if w == v:
                    continue
                e = inp.d[(v, w)] if backwards else inp.d[(w, v)]
                if cut is not None:
                    tgt = w if backwards else v
                    e = band(e, bnot(cut.mem(tgt)))
                steps.append(band(e, cur[w]))
            nxt[v] = bor(cur[v], *steps)
        cur = nxt
    return cur


def spec_same_district(inp: SymInput):
    """same[u][v]: u, v present and joined by bidirected edges (reflexive for present nodes); path-doubling closure."""
    U = inp.U
    R = {u: {v: (inp.p[u] if u == v else inp.b[frozenset((u, v))]) for v in U} for u in U}
    k = 1
    while k < len(U):
        R = {u: {v: bor(R[u][v], *[band(R[u][w], R[w][v]) for w in U if w not in (u, v)]) for v in U} for u in U}
        k *= 2
    return R


def run_symbolic(op, N, acyclic=False):
    """Builds the query for one operation.  Returns dict(inp, S, extra, constraints, goal, concretise)."""
    U = universe(N)
    it = Interp(U)
    inp = SymInput(U, acyclic=acyclic)
    g = inp.mixed()
    S = sym_subset(U)
    cons = list(inp.wf)
    # documented precondition: the vertex set consists of nodes of the graph
    cons += [z3.Implies(lift(S.mem(v)), lift(inp.p[v])) for v in U]
    extra_sets = {}
    snapshot = (dict(g.directed.node), dict(g.directed.edge), dict(g.undirected.node), dict(g.undirected.edge))
    goals = []
    results = []
    if op in ("subgraph", "remove_in_edges", "remove_out_edges", "remove_nodes_from"):
        val, raises = it.method(g, op, S)
        inS = S.mem
        if op == "subgraph":
            nodes = {v: inS(v) for v in U}
            di = {k: band(e, inS(k[0]), inS(k[1])) for k, e in inp.d.items()}
            bi = {k: band(e, *[inS(x) for x in k]) for k, e in inp.b.items()}
        elif op == "remove_in_edges":
            nodes = dict(inp.p)
            di = {k: band(e, bnot(inS(k[1]))) for k, e in inp.d.items()}
            bi = {k: band(e, *[bnot(inS(x)) for x in k]) for k, e in inp.b.items()}
        elif op == "remove_out_edges":
            nodes = dict(inp.p)
            di = {k: band(e, bnot(inS(k[0]))) for k, e in inp.d.items()}
            bi = dict(inp.b)
        else:
            nodes = {v: band(inp.p[v], bnot(inS(v))) for v in U}
            di = {k: band(e, bnot(inS(k[0])), bnot(inS(k[1]))) for k, e in inp.d.items()}
            bi = {k: band(e, *[bnot(inS(x)) for x in k]) for k, e in inp.b.items()}
        if not isinstance(val, SymMixed):
            raise Unsupported(f"{op} did not return a graph")
        goals.append(graph_differs(val, nodes, di, bi))
    elif op in ("ancestors_inclusive", "descendants_inclusive"):
        val, raises = it.method(g, op, S)
        goals.append(set_differs(val, spec_closure(inp, S, backwards=(op == "ancestors_inclusive"))))
    elif op == "districts":
        val, raises = it.method(g, op)
        same = spec_same_district(inp)
        V = SSet.of(val)
        # blocks contain only present nodes; two present nodes share a block iff bidirected-connected; each present
        # node lies in exactly one block (blocks are pairwise disjoint)
        bad = []
        for u in U:
            blocks_u = [gd for blk, gd in V.d.items() if u in blk]
            bad.append(bnot(biff(bor(*blocks_u), inp.p[u])))
            bad.append(band(*[False]) if len(blocks_u) < 2 else bor(*[band(a, b) for a, b in itt.combinations(blocks_u, 2)]))
            for v in U:
                if u.name < v.name:
                    together = bor(*[gd for blk, gd in V.d.items() if u in blk and v in blk])
                    bad.append(bnot(biff(together, band(inp.p[u], inp.p[v], same[u][v]))))
        goals.append(bor(*bad))
    elif op == "get_district":
        node = U[0]
        cons.append(lift(inp.p[node]))
        val, raises = it.method(g, op, node)
        same = spec_same_district(inp)
        if isinstance(val, frozenset):
            val = SSet({v: True for v in val})
        goals.append(set_differs(val, {v: band(inp.p[v], same[node][v]) for v in U}))
    elif op == "get_markov_pillow":
        val, raises = it.method(g, op, S)
        spec = {u: band(bnot(S.mem(u)), bor(*[band(inp.d[(u, v)], S.mem(v)) for v in U if v != u])) for u in U}
        goals.append(set_differs(val, spec))
    elif op == "get_markov_blanket":
        val, raises = it.method(g, op, S)
        child = {w: bor(*[band(inp.d[(s, w)], S.mem(s)) for s in U if s != w]) for w in U}
        spec = {}
        for u in U:
            pa = bor(*[band(inp.d[(u, v)], S.mem(v)) for v in U if v != u])
            copa = bor(*[band(inp.d[(u, w)], child[w]) for w in U if w != u])
            spec[u] = band(bnot(S.mem(u)), bor(pa, child[u], copa))
        goals.append(set_differs(val, spec))
    elif op in ("disorient", "moralize", "moral_graph"):
        same = spec_same_district(inp)
        if op == "disorient":
            val, raises = it.method(g, "disorient")
            und = val
            adj = {k: bor(inp.d[tuple(k)] if False else False) for k in inp.b}
            spec_e = {k: bor(inp.b[k], inp.d[tuple(k)], inp.d[tuple(k)[::-1]]) for k in inp.b}
        else:
            mval, raises = it.method(g, "moralize")
            und, r2 = it.method(mval, "disorient")
            raises = raises + r2
            spec_e = {}
            for k in inp.b:
                u, v = tuple(k)
                reach_u = {a: (inp.p[u] if a == u else inp.d[(u, a)]) for a in U}
                reach_v = {b: (inp.p[v] if b == v else inp.d[(v, b)]) for b in U}
                spec_e[k] = bor(*[band(reach_u[a], reach_v[b], same[a][b]) for a in U for b in U])
            if op == "moralize":
                # moralize itself: same nodes, same directed edges, undirected part is a superset of the old one
                bad = [graph_differs(SymMixed(mval.directed, g.undirected, U), dict(inp.p), dict(inp.d), dict(inp.b))]
                bad += [band(inp.b[k], bnot(mval.undirected.edge.get(k, False))) for k in inp.b]
                bad += [bnot(biff(mval.undirected.node[v], inp.p[v])) for v in U]
                goals.append(bor(*bad))
        if not isinstance(und, M.SymGraph):
            raise Unsupported("disorient did not return an undirected graph")
        bad = [bnot(biff(und.node[v], inp.p[v])) for v in U]
        bad += [bnot(biff(und.edge.get(k, False), spec_e[k])) for k in set(spec_e) | set(und.edge)]
        goals.append(bor(*bad))
    elif op == "get_no_effect_on_outcomes":
        Y = sym_subset(U, "y")
        extra_sets["Y"] = Y
        cons += [z3.Implies(lift(Y.mem(v)), lift(inp.p[v])) for v in U]
        val, raises = it.method(g, op, S, Y)
        anc = spec_closure(inp, Y, backwards=True, cut=S)
        spec = {v: band(inp.p[v], bnot(S.mem(v)), bnot(anc[v])) for v in U}
        goals.append(set_differs(val, spec))
    elif op == "is_connected":
        cons.append(lift(bor(*inp.p.values())))  # networkx: undefined for the null graph
        val, raises = it.method(g, op)
        same = spec_same_district(inp)
        spec = band(*[bor(bnot(inp.p[u]), bnot(inp.p[v]), same[u][v]) for u, v in itt.combinations(U, 2)])
        goals.append(bnot(biff(guard_of(val), spec)))
    elif op == "pre":
        # explicit order = the universe order (all nodes present); S symbolic
        cons += [lift(inp.p[v]) for v in U]
        val, raises = it.method(g, "pre", S, list(U))
        from ..rsi.sym import SList

        items = SList.of(val).items
        bad = []
        if [x for _, x in items] != list(U)[: len(items)] and [x for _, x in items] != list(U):
            bad.append(True)  # pre() may only return a prefix of the order, in order
        got = {x: gd for gd, x in items}
        for i, v in enumerate(U):
            spec = band(*[bnot(S.mem(w)) for w in U[: i + 1]])
            bad.append(bnot(biff(got.get(v, False), spec)))
        goals.append(bor(*bad))
    elif op == "get_nodes_in_directed_paths":
        T = sym_subset(U, "t")
        extra_sets["T"] = T
        cons += [z3.Implies(lift(T.mem(v)), lift(inp.p[v])) for v in U]
        cons += [z3.Not(z3.And(lift(S.mem(v)), lift(T.mem(v)))) for v in U]  # sources and targets disjoint
        fn = it.lookup_func("get_nodes_in_directed_paths", "graph")
        val, raises = it.call(fn, g, S, T)
        # spec: v lies on a simple directed path from some source to some target
        spec = {v: False for v in U}
        for s0 in U:
            for t0 in U:
                if s0 == t0:
                    continue
                others = [w for w in U if w not in (s0, t0)]
                for k in range(len(others) + 1):
                    for mid in itt.permutations(others, k):
                        path = (s0, *mid, t0)
                        gpath = band(S.mem(s0), T.mem(t0), *[inp.d[(a, b)] for a, b in zip(path, path[1:])])
                        for v in path:
                            spec[v] = bor(spec[v], gpath)
        goals.append(set_differs(val, spec))
    elif op == "intervene":
        raise Unsupported("intervene is checked on the native corpus only (its result lives on a different node universe)")
    elif op == "topological_sort":
        raise Unsupported("topological_sort is a one-line delegation to networkx: checked on the native corpus only")
    else:
        raise ValueError(op)
    goals.append(raise_guard(raises))
    # receiver unchanged
    after = (g.directed.node, g.directed.edge, g.undirected.node, g.undirected.edge)
    for before, now in zip(snapshot, after):
        for k in set(before) | set(now):
            a, b = before.get(k, False), now.get(k, False)
            if a is not b:
                goals.append(bnot(biff(a, b)))
    return {"inp": inp, "S": S, "extra": extra_sets, "cons": cons, "goal": bor(*goals), "interp": it, "node": U[0]}


def replay_model(op, q, model):
    """Concrete input from a model; run the real code natively; compare with the concrete spec."""
    inp = q["inp"]
    nodes, di, bi = inp.concrete(model)
    S = eval_set(model, q["S"])
    extra = None
    if op == "get_no_effect_on_outcomes":
        extra = sorted(eval_set(model, q["extra"]["Y"]), key=str)
    if op == "get_district":
        extra = q["node"]
    if op == "pre":
        extra = list(inp.U)
    if op == "get_nodes_in_directed_paths":
        extra = sorted(eval_set(model, q["extra"]["T"]), key=str)
    return check_concrete(op, nodes, di, bi, sorted(S, key=str), extra)


def check_concrete(op, nodes, di, bi, S, extra=None, form="set"):
    from y0.graph import NxMixedGraph

    g = NxMixedGraph()
    for n in nodes:
        g.add_node(n)
    for u, v in di:
        g.add_directed_edge(u, v)
    for u, v in bi:
        g.add_undirected_edge(u, v)
    before = (set(g.nodes()), set(g.directed.edges()), set(g.undirected.edges()), set(g.undirected.nodes()))
    rec = {"op": op, "nodes": [n.name for n in nodes], "di": [[u.name, v.name] for u, v in di], "bi": [[u.name, v.name] for u, v in bi], "S": [s.name for s in S], "extra": ([e.name for e in extra] if isinstance(extra, list) else (extra.name if extra is not None else None)), "form": form}
    want = concrete_spec(op, nodes, di, bi, S, extra)
    try:
        got = native_run(op, g, S, extra, form)
    except Exception as e:  # noqa: BLE001
        rec["observed"] = f"raised {type(e).__name__}: {short(e, 120)}"
        rec["expected"] = short(want, 300)
        rec["bad"] = True
        return rec
    after = (set(g.nodes()), set(g.directed.edges()), set(g.undirected.edges()), set(g.undirected.nodes()))
    rec["observed"] = short(got, 300)
    rec["expected"] = short(want, 300)
    rec["bad"] = (not native_matches(op, got, want)) or before != after
    if before != after:
        rec["observed"] += " [receiver modified]"
    elif form == "set" and op in ("subgraph", "remove_in_edges", "remove_out_edges", "remove_nodes_from", "moralize"):
        # "returns a new graph": editing the result must not show in the receiver
        from y0.dsl import Variable

        try:
            r = g.moralize() if op == "moralize" else getattr(g, op)(set(S))
            p, q = Variable("_fresh1"), Variable("_fresh2")
            r.add_directed_edge(p, q)
            r.add_undirected_edge(p, q)
            keep = list(r.nodes())
            if len(keep) >= 4:
                r.add_directed_edge(keep[0], keep[1])
                r.add_undirected_edge(keep[0], keep[1])
            later = (set(g.nodes()), set(g.directed.edges()), set(g.undirected.edges()), set(g.undirected.nodes()))
            if later != before:
                rec["bad"] = True
                rec["observed"] += " [the result shares state with the receiver: editing the result changed the receiver]"
        except Exception as e:  # noqa: BLE001
            rec["bad"] = True
            rec["observed"] += f" [editing the result raised {type(e).__name__}: {short(e, 80)}]"
    return rec


def all_small_graphs(n):
    """Every mixed graph on exactly n named nodes (all present), for translator validation."""
    U = universe(n)
    dpairs = [(u, v) for u in U for v in U if u != v]
    bpairs = list(itt.combinations(U, 2))
    for dm in range(1 << len(dpairs)):
        di = [p for i, p in enumerate(dpairs) if dm >> i & 1]
        for bm in range(1 << len(bpairs)):
            bi = [p for i, p in enumerate(bpairs) if bm >> i & 1]
            yield U, di, bi


def _acyclic(nodes, di):
    left = set(nodes)
    while left:
        free = [n for n in left if not any(v == n and u in left for u, v in di)]
        if not free:
            return False
        left -= set(free)
    return True


def order_respecting_graphs(n):
    """Every mixed graph on n nodes whose directed edges respect the node order (acyclic), every set of bidirected
    edges: 4^(n(n-1)/2) graphs - the 4-node layer of the native corpus (the full 4-node family has 2^18 members)."""
    U = universe(n)
    pairs = list(itt.combinations(U, 2))
    for dm in range(1 << len(pairs)):
        di = [p for i, p in enumerate(pairs) if dm >> i & 1]
        for bm in range(1 << len(pairs)):
            bi = [p for i, p in enumerate(pairs) if bm >> i & 1]
            yield U, di, bi


def native_corpus(op, n, graphs=None):
    """Every mixed graph on n nodes x every S: real code natively against the concrete definitions."""
    bad, cnt = [], 0
    for U, di, bi in (graphs if graphs is not None else all_small_graphs(n)):
        for k in range(len(U) + 1):
            for S in itt.combinations(U, k):
                if op in ("districts", "disorient", "moralize", "moral_graph", "is_connected") and S:
                    continue
                extra = None
                if op == "get_district":
                    if S:
                        continue
                    extra = U[0]
                if op == "get_no_effect_on_outcomes":
                    extra = [U[-1]]
                if op == "pre":
                    extra = list(reversed(U)) if len(S) % 2 else list(U)
                if op == "get_nodes_in_directed_paths":
                    extra = [w for w in U if w not in S][-1:]
                    if not extra or not S:
                        continue
                if op == "topological_sort":
                    if S or not _acyclic(U, di):
                        continue
                forms = ["set"]
                if op in ACCEPT_VARIABLE + ("get_markov_pillow",):
                    forms += ["list", "frozenset"] + (["variable"] if len(S) == 1 and op in ACCEPT_VARIABLE else [])
                for form in forms:
                    cnt += 1
                    r = check_concrete(op, U, di, bi, list(S), extra, form)
                    if r["bad"] and len(bad) < 3:
                        bad.append(r)
    return cnt, bad


def work(job):
    op, N, timeout_ms, validate_n = job
    out = {"op": op, "N": N}
    t0 = time.time()
    try:
        q = run_symbolic(op, N)
    except Exception as e:  # noqa: BLE001 - Unsupported, or a construct the models do not know (AttributeError ...)
        out["status"] = "unsupported"
        out["why"] = str(e) if isinstance(e, Unsupported) else f"{type(e).__name__}: {e}"
        out["validated"], out["native_bad"] = native_corpus(op, max(validate_n, 3))
        c4, b4 = native_corpus(op, 4, graphs=order_respecting_graphs(4))
        out["validated"] += c4
        out["native_bad"] = (out["native_bad"] + b4)[:3]
        return out
    out["encode_s"] = time.time() - t0
    # vacuity twin: the assumptions are satisfiable with a non-trivial graph
    tw, _, _ = solve(q["cons"], band(*[lift(x) for x in list(q["inp"].d.values())[:2]]), timeout_ms)
    out["twin"] = tw
    verdict, model, dt = solve(q["cons"], q["goal"], timeout_ms)
    out["verdict"], out["solve_s"] = verdict, dt
    out["nvars"] = len(q["inp"].d) + len(q["inp"].b) + len(q["inp"].p) + len(q["S"].d)
    if verdict == "sat":
        out["cex"] = replay_model(op, q, model)
    # translator validation: the encoding evaluated on concrete small graphs must agree with the native run;
    # here: every graph on validate_n nodes x every S natively against the concrete spec (finds violations the
    # encoding could miss and keeps detection alive if a construct becomes unsupported)
    cnt, bad = native_corpus(op, validate_n) if validate_n else (0, [])
    if validate_n:
        # a 4-node layer (acyclic, order-respecting directed edges; all bidirected edge sets): needed for defects that
        # no 3-node graph shows (a path of length three, two sources of which one reaches a target, ...)
        c4, b4 = native_corpus(op, 4, graphs=order_respecting_graphs(4))
        cnt += c4
        bad = (bad + b4)[:3]
    out["validated"] = cnt
    out["native_bad"] = bad
    return out


def run() -> int:
    t = tier()
    N = 6 if t == "quick" else 7
    timeout_ms = 120000 if t == "quick" else 900000
    rep = Report(PROP, "model_checking")
    rep.functions = [
        "y0/graph.py (AST of the current source, re-read on every run): NxMixedGraph." + ", ".join(OPS[:-3]) + ", get_no_effect_on_outcomes, get_intervened_ancestors, is_connected",
        "helpers reached: from_edges, add_node, add_directed_edge, add_undirected_edge, nodes, _ensure_set, _include_adjacent, _exclude_source, _exclude_target, _exclude_adjacent, _ancestors_inclusive, _descendants_inclusive, iter_moral_links",
    ]
    rep.stubs = [
        "networkx DiGraph/Graph replaced by relational models over a fixed node universe (vf/rsi/models.py): add_node(s), add_edge(s), nodes, edges, predecessors, successors, copy, subgraph, remove_node(s); nx.ancestors/descendants (raise NetworkXError for an absent source), connected_components, is_connected, has_path",
        "set / list / frozenset / comprehension / itertools.chain, combinations semantics of the interpreter (vf/rsi/interp.py); iteration order is not modelled",
    ]
    rep.bounds = {"universe_nodes": N, "graphs": f"every mixed graph (any subset of the {N} nodes present, any directed edges incl. cycles, any bidirected edges), every node subset S of the present nodes", "solver_timeout_ms": timeout_ms}
    rep.assumptions = [
        "documented precondition: the vertex argument is a subset of the nodes of the graph",
        "independence of insertion order is not decided (the relational model has no order); intervene() and topological_sort() are checked only on the native corpus (every graph on 3 nodes and every graph on 4 nodes whose directed edges respect the node order), not symbolically; pre() is encoded with an explicit order; get_nodes_in_directed_paths() with disjoint source/target sets",
        "specification of moralize: the flattened moralised graph joins u, v iff they are adjacent or collider-connected through one district (augmented-graph criterion); moralize itself keeps nodes and directed edges and only adds undirected edges",
    ]
    rep.rule = "one query per operation = all graphs on the universe x all subsets S; states = number of Boolean graph/subset variables of the query; a query is non-trivial when its vacuity twin is sat"
    jobs = [(op, N, timeout_ms, 3) for op in OPS]
    states = 0
    for job, st, r in pmap(work, jobs):
        if st != "ok":
            rep.harness_errors.append(short(r, 800))
            continue
        rep.cases += 1
        op = r["op"]
        if r.get("status") == "unsupported" and op in ("intervene", "topological_sort"):
            rep.count("native_only_ops")
        elif r.get("status") == "unsupported":
            rep.inconclusive += 1
            rep.inconclusive_samples.append({"op": op, "unsupported": r["why"]})
            rep.harness_errors.append(f"{op}: encoding cannot be built on this tree: {r['why']}")
        else:
            rep.obligations += 1
            rep.solver_s += r["solve_s"]
            states += r["nvars"]
            if r["twin"] == "sat":
                rep.nontrivial.add(op)
            else:
                rep.harness_errors.append(f"{op}: vacuity twin is {r['twin']}")
            if r["verdict"] == "unsat":
                rep.discharged += 1
            elif r["verdict"] == "unknown":
                rep.inconclusive += 1
                rep.inconclusive_samples.append({"op": op, "why": "solver timeout"})
            else:
                rep.refuted += 1
                cex = r["cex"]
                if cex["bad"]:
                    what = f"{op}: graph nodes={cex['nodes']} di={cex['di']} bi={cex['bi']} S={cex['S']}: observed {cex['observed']}, definition gives {cex['expected']}"
                    rep.add_violation(Violation(PROP, [f"{op}"], what, {"property": PROP, **cex}))
                else:
                    rep.harness_errors.append(f"{op}: solver counterexample did not reproduce natively: {cex}")
            rep.add_sample({"op": op, "N": r["N"], "verdict": r["verdict"], "encode_s": round(r["encode_s"], 2), "solve_s": round(r["solve_s"], 2), "bool_vars": r["nvars"]})
        rep.count("validated_native", r.get("validated", 0))
        for b in r.get("native_bad", []):
            what = f"{op}: graph nodes={b['nodes']} di={b['di']} bi={b['bi']} S={b['S']}: observed {b['observed']}, definition gives {b['expected']} (native validation corpus)"
            rep.add_violation(Violation(PROP, [f"{op}"], what, {"property": PROP, **b}))
    rep.extra.update({"states": max(states, 1), "transitions": max(rep.obligations, 1), "traces_validated_against_impl": rep.counters.get("validated_native", 0), "explanation_states": "states = Boolean variables of the symbolic graphs/subsets summed over queries (each query covers 2^vars concrete inputs); transitions = operation queries"})
    from .. import history_runs

    history_runs.run(rep, PROP)
    return rep.finish()


def replay(payload: dict) -> int:
    if payload.get("kind") == "history":
        from .. import history_runs

        return history_runs.replay(PROP, payload)
    from y0.dsl import Variable

    V = lambda n: Variable(n)
    extra = payload.get("extra")
    if isinstance(extra, list):
        extra = [V(e) for e in extra]
    elif extra is not None:
        extra = V(extra)
    r = check_concrete(payload["op"], [V(n) for n in payload["nodes"]], [(V(u), V(v)) for u, v in payload["di"]], [(V(u), V(v)) for u, v in payload["bi"]], [V(s) for s in payload["S"]], extra, payload.get("form", "set"))
    print(f"{r['op']} on nodes={r['nodes']} di={r['di']} bi={r['bi']} S={r['S']}")
    print("observed:", r["observed"])
    print("expected:", r["expected"])
    print("reproduced" if r["bad"] else "not reproduced")
    return 1 if r["bad"] else 0

"""C05, derivation of the selection diagrams (RSI): get_nodes_to_transport marks at least the nodes of the
construction it documents - (De(Z_i) - W_i) u (district(W_i) - An(W_i) in G with the edges into Z_i removed) -
for every ADMG on N nodes and every pair of node sets (Z_i, W_i).

A missing transport node makes TRSO treat a mechanism as shared with the target although the surrogate experiment
does not determine it (the SEM part of C05 cannot see that, because it builds its model families from the
library's own diagrams).  Extra transport nodes only make the algorithm more conservative and are not reported.
"""

from __future__ import annotations

import time

import z3

from ..common import Unsupported, short
from ..rsi import models as M
from ..rsi.harness import SymInput, eval_set, solve, sym_subset, universe
from ..rsi.interp import Interp
from ..rsi.sym import SSet, band, bnot, bor, lift
from .c19_rsi import reach_incl


def reference(U, inp: SymInput, Z: SSet, W: SSet, conn):
    d = lambda u, v: inp.d.get((u, v), False)
    R = reach_incl(U, d)
    Rz = reach_incl(U, lambda u, v: band(d(u, v), bnot(Z.mem(v))))
    ref = {}
    for v in U:
        de = bor(*[band(Z.mem(z), R[z][v]) for z in U])
        dist = bor(*[band(W.mem(w), True if w == v else conn[w][v]) for w in U])
        anc = bor(*[band(W.mem(w), Rz[v][w]) for w in U])
        ref[v] = band(inp.p[v], bor(band(de, bnot(W.mem(v))), band(dist, bnot(anc))))
    return ref


def rsi_work(job):
    n, timeout_ms = job
    U = universe(n)
    out = {"N": n}
    inp = SymInput(U, acyclic=True)
    g = inp.mixed()
    Z, W = sym_subset(U, "Z"), sym_subset(U, "W")
    cons = list(inp.wf)
    for v in U:
        cons.append(z3.Implies(lift(Z.mem(v)), lift(inp.p[v])))
        cons.append(z3.Implies(lift(W.mem(v)), lift(inp.p[v])))
        cons.append(z3.Not(z3.And(lift(Z.mem(v)), lift(W.mem(v)))))  # an experiment does not observe what it sets
    cons.append(lift(bor(*Z.d.values())))
    cons.append(lift(bor(*W.d.values())))
    ip = Interp(U)
    M.Ctx.side = []
    t0 = time.time()
    try:
        res, raises = ip.call("get_nodes_to_transport", surrogate_interventions=SSet(dict(Z.d)), surrogate_outcomes=SSet(dict(W.d)), graph=g)
        got = SSet.of(res)
    except Unsupported as e:
        out.update(status="unsupported", why=str(e))
        return out
    conn = g.undirected.conn()
    ref = reference(U, inp, Z, W, conn)
    out["encode_s"] = time.time() - t0
    missing = bor(*[band(ref[v], bnot(got.mem(v))) for v in U])
    extra = bor(*[band(got.mem(v), bnot(ref[v])) for v in U])
    tw, _, _ = solve(cons, band(*[ref[U[0]], inp.b[frozenset((U[0], U[1]))], W.mem(U[1])]), timeout_ms)
    out["twin"] = tw
    verdict, model, dt = solve(cons, bor(missing, *[x for x, _, _ in raises]), timeout_ms)
    out.update(verdict=verdict, solve_s=dt, nvars=len(inp.d) + len(inp.b) + len(inp.p) + 2 * n)
    v2, _, dt2 = solve(cons, extra, timeout_ms)
    out.update(extra_verdict=v2, solve_s=dt + dt2)
    if verdict == "sat":
        nodes, di, bi = inp.concrete(model)
        out["cex"] = native_case(nodes, di, bi, sorted(eval_set(model, Z), key=lambda v: v.name), sorted(eval_set(model, W), key=lambda v: v.name))
    return out


def native_case(nodes, di, bi, Z, W):
    from ..graphs import GSpec

    g = GSpec(tuple(v.name for v in nodes), tuple((u.name, v.name) for u, v in di), tuple(tuple(sorted((u.name, v.name))) for u, v in bi))
    return native_check(g, [v.name for v in Z], [v.name for v in W])


def native_check(g, Z, W):
    """Real get_nodes_to_transport against an independent evaluation of the documented construction."""
    from y0.algorithm.transport import get_nodes_to_transport
    from y0.dsl import Variable

    from ..graphs import GSpec

    rec = {"g": g.to_json(), "Z": list(Z), "W": list(W)}
    de = g.descendants(Z)
    dist = set()
    for comp in g.districts():
        if set(comp) & set(W):
            dist |= set(comp)
    anc = g.ancestors(W, removed_in=set(Z))
    ref = (set(de) - set(W)) | (dist - set(anc))
    try:
        got = {v.name for v in get_nodes_to_transport(surrogate_interventions={Variable(x) for x in Z}, surrogate_outcomes={Variable(x) for x in W}, graph=g.to_nx())}
    except Exception as e:  # noqa: BLE001
        rec.update(bad=True, out=f"raised {type(e).__name__}: {short(e, 100)}", want=sorted(ref))
        return rec
    rec.update(bad=bool(ref - got), out=sorted(got), want=sorted(ref), missing=sorted(ref - got))
    return rec


def rsi_jobs(t):
    return [(n, 120000 if t == "quick" else 900000) for n in ([4] if t == "quick" else [4, 5])]

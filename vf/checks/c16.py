"""C16 — LV-DAG round trip (RSI over a symbolic ADMG) and the Evans simplification clauses (c16_evans.py: RSI over
a symbolic latent-variable DAG: idempotence, observed nodes kept, read-off graph = latent projection).

The corollary of C16 (separation relations and identifiability verdicts unchanged) is a consequence of the projection
equality by the theory of latent projections and is not checked separately.
"""

from __future__ import annotations

import itertools as itt
import time

import z3

from ..common import Report, Unsupported, Violation, pmap, seed, short, tier
from ..rsi.harness import SymInput, graph_differs, raise_guard, solve, universe
from ..rsi.interp import Interp, SymMixed
from ..rsi.sym import band, biff, bnot, bor, is_sym, lift
from .c16_evans import evans_jobs, evans_work, native_api, native_api_corpus, native_corpus, native_evans

PROP = "C16"


def native_case(nodes, di, bi, order=None):
    from y0.graph import NxMixedGraph

    g = NxMixedGraph()
    for n in (order or nodes):
        g.add_node(n)
    for u, v in di:
        g.add_directed_edge(u, v)
    for u, v in bi:
        g.add_undirected_edge(u, v)
    rec = {"nodes": [n.name for n in nodes], "di": [[u.name, v.name] for u, v in di], "bi": [[u.name, v.name] for u, v in bi], "order": [n.name for n in (order or nodes)]}
    try:
        back = NxMixedGraph.from_latent_variable_dag(g.to_latent_variable_dag())
        # the documented keyword arguments (another prefix, start index and tag) must round-trip as well
        alt = NxMixedGraph.from_latent_variable_dag(g.to_latent_variable_dag(prefix="lat_", start=3, tag="is_latent"), tag="is_latent")
        if alt != back:
            back = alt
    except Exception as e:  # noqa: BLE001
        rec["observed"] = f"raised {type(e).__name__}: {short(e, 100)}"
        rec["bad"] = True
        return rec
    same = set(back.nodes()) == set(g.nodes()) and set(back.directed.edges()) == set(g.directed.edges()) and {frozenset(e) for e in back.undirected.edges()} == {frozenset(e) for e in g.undirected.edges()} and set(back.undirected.nodes()) == set(back.nodes())
    rec["observed"] = f"nodes={sorted(n.name for n in back.nodes())} di={sorted((u.name, v.name) for u, v in back.directed.edges())} bi={sorted(tuple(sorted((u.name, v.name))) for u, v in back.undirected.edges())}"
    rec["bad"] = not same or back != g
    return rec


def work(job):
    N, timeout_ms = job
    from y0.dsl import Variable

    U = universe(N)
    M = N * (N - 1) // 2
    L = [Variable(f"u_{i}") for i in range(2 * M)]  # both orientations of an edge are candidates of the sorted list
    it = Interp(U + L)
    inp = SymInput(U, acyclic=True)
    # the symbolic input lives on U only; latent names are reserved for the conversion
    g = inp.mixed()
    for m in (g.directed, g.undirected):
        m.U = U + L
        for l in L:
            m.node[l] = False
    out = {"N": N}
    t0 = time.time()
    try:
        dag, r1 = it.method(g, "to_latent_variable_dag")
        back, r2 = it.apply_entry("from_latent_variable_dag", dag)
    except Unsupported as e:
        out["status"] = "unsupported"
        out["why"] = str(e)
        return out
    out["encode_s"] = time.time() - t0
    if not isinstance(back, SymMixed):
        out["status"] = "unsupported"
        out["why"] = f"round trip returned {type(back).__name__}"
        return out
    goal = bor(graph_differs(back, dict(inp.p), dict(inp.d), dict(inp.b)), raise_guard(r1 + r2))
    cons = list(inp.wf)
    tw, _, _ = solve(cons, band(*[lift(x) for x in list(inp.b.values())[:1] + list(inp.d.values())[:1]]), timeout_ms)
    out["twin"] = tw
    verdict, model, dt = solve(cons, goal, timeout_ms)
    out["verdict"], out["solve_s"] = verdict, dt
    out["nvars"] = len(inp.d) + len(inp.b) + len(inp.p)
    if verdict == "sat":
        nodes, di, bi = inp.concrete(model)
        out["cex"] = native_case(nodes, di, bi, inp.insertion_order(model))
    return out


def validate_native(n):
    U = universe(n)
    pairs = list(itt.combinations(U, 2))
    bad, cnt = [], 0
    for k in range(1, n + 1):
        for nodes in itt.combinations(U, k):
            ps = [p for p in pairs if p[0] in nodes and p[1] in nodes]
            for dm in range(1 << len(ps)):
                di = [p for i, p in enumerate(ps) if dm >> i & 1]
                for bm in range(1 << len(ps)):
                    bi = [p for i, p in enumerate(ps) if bm >> i & 1]
                    for order in (list(nodes), list(reversed(nodes))):
                        cnt += 1
                        r = native_case(list(nodes), di, bi, order)
                        if r["bad"] and len(bad) < 4:
                            bad.append(r)
    return cnt, bad


def run() -> int:
    t = tier()
    Ns = [4]  # N = 5 (25-node universe with the latent names) does not finish within half an hour; the thorough tier deepens the Evans queries instead
    timeout_ms = 120000 if t == "quick" else 900000
    rep = Report(PROP, "model_checking")
    rep.functions = [
        "y0/graph.py: NxMixedGraph.to_latent_variable_dag, _latent_dag, NxMixedGraph.from_latent_variable_dag, raise_on_counterfactual, add_directed_edge, add_undirected_edge (AST of the current source)",
        "y0/algorithm/simplify_latent.py: simplify_latent_dag, transform_latents_with_parents, iter_middle_latents, iter_latents, remove_widow_latents, iter_widow_latents, remove_unidirectional_latents, iter_unidirectional_latents, remove_redundant_latents, _iter_redundant_latents, _assert_variable_nodes (AST of the current source; generators run lazily)",
        "y0/algorithm/simplify_latent.py: evans_simplify; y0/graph.py: _ensure_set (AST of the current source)",
    ]
    rep.stubs = [
        "networkx models as in C14 (undirected edges are reported from their earlier-inserted endpoint; the insertion order is a symbolic permutation) plus node attributes (add_node(**attr), nx.set_node_attributes, graph.nodes.items()/values(), data[tag], tag in data)",
        "enumerate() over the sorted guarded list of bidirected edges: the latent index is the number of present earlier edges (guarded case split over (edge, index) pairs)",
        "Evans clauses: nx.topological_sort yields the universe order, which is a topological order of every admissible input (edges respect the universe order) and stays one while the graph is rewritten; nx yields generation order instead - the rewriting of one latent does not touch the parents or children of a latent that is neither its ancestor nor its descendant, so the result does not depend on which topological order is used (cross-checked on the native corpus, whose insertion orders differ from the universe order)",
        "Evans clauses: generators are coroutines (thread hand-off), `while` is unrolled |universe|+1 times with an unwinding assertion, len()/out_degree() of guarded collections are cardinality constraints, a dict comprehension over a guarded iterable is a guarded list of entries",
    ]
    ejobs = evans_jobs(t)
    rep.bounds = {
        "universe_nodes": Ns,
        "graphs": "round trip: every ADMG on a subset of the universe, including nodes without edges",
        "evans": f"every DAG on a subset of n nodes whose edges respect the universe order, every subset tagged latent (latents with parents, 0/1/many children, nested, duplicated child sets); n in {sorted({j[1] for j in ejobs})}; name labellings {sorted({j[2] for j in ejobs})}",
        "solver_timeout_ms": timeout_ms,
    }
    rep.assumptions = [
        "Evans clauses: no node of the input is named <latent>_prime (the name transform_latents_with_parents gives the exogenous replacement of a latent with parents); every node carries the tag",
        "the 'consequently' clause of C16 (separation relations and identifiability verdicts among observed nodes unchanged) follows from the projection equality by the theory of latent projections; it is not encoded",
        "evans_simplify(graph, latents=S) (ADMG in, ADMG out) is checked against the latent projection of the ADMG onto the nodes outside S, each bidirected edge standing for its own exogenous latent (kind 'api')",
    ]
    rep.rule = "round trip: one query per N over all ADMGs on the universe; Evans: one query per (clause, n, labelling) over all admissible LV-DAGs; non-trivial = vacuity twin sat"
    states = 0
    # N = 5 (25-node universe with the latent names): z3 does not finish within half an hour and overshoots its own
    # timeout, so that query gets a short one and is reported as inconclusive when it does not finish
    for job, st, r in pmap(work, [(N, timeout_ms if N <= 4 else 200000) for N in Ns]):
        if st != "ok":
            rep.harness_errors.append(short(r, 800))
            continue
        rep.cases += 1
        key = f"N={r['N']}"
        if r.get("status") == "unsupported":
            rep.inconclusive += 1
            rep.harness_errors.append(f"{key}: encoding cannot be built on this tree: {r['why']}")
            continue
        rep.obligations += 1
        rep.solver_s += r["solve_s"]
        states += r["nvars"]
        if r["twin"] == "sat":
            rep.nontrivial.add(key)
        if r["verdict"] == "unsat":
            rep.discharged += 1
        elif r["verdict"] == "unknown":
            rep.inconclusive += 1
        else:
            rep.refuted += 1
            cex = r["cex"]
            if cex["bad"]:
                rep.add_violation(Violation(PROP, [key], f"LV-DAG round trip of nodes={cex['nodes']} di={cex['di']} bi={cex['bi']} gives {cex['observed']}", {"property": PROP, **cex}))
            else:
                rep.harness_errors.append(f"{key}: solver counterexample did not reproduce natively: {cex}")
        rep.add_sample({"query": key, "verdict": r["verdict"], "encode_s": round(r["encode_s"], 2), "solve_s": round(r["solve_s"], 2), "bool_vars": r["nvars"]})
    for job, st, r in pmap(evans_work, ejobs):
        if st != "ok":
            rep.harness_errors.append(short(r, 800))
            continue
        rep.cases += 1
        key = f"evans:{r['kind']} n={r['N']} names={r['labelling']}"
        if r.get("status") == "unsupported":
            rep.inconclusive += 1
            rep.harness_errors.append(f"{key}: encoding cannot be built on this tree: {r['why']}")
            continue
        rep.obligations += 1
        rep.solver_s += r["solve_s"]
        states += r["nvars"]
        if r["twin"] == "sat":
            rep.nontrivial.add(key)
        if r["verdict"] == "unsat":
            rep.discharged += 1
        elif r["verdict"] == "unknown":
            rep.inconclusive += 1
        else:
            rep.refuted += 1
            cex = r["cex"]
            if cex["bad"]:
                rep.add_violation(Violation(PROP, [key, "evans:" + "+".join(cex["bad"])], f"{cex['desc']}: {'+'.join(cex['bad'])} (got {cex.get('observed') or cex.get('twice')}; expected {cex.get('expected') or cex.get('once')})", {"property": PROP, "evans": True, **cex}))
            else:
                rep.harness_errors.append(f"{key}: solver counterexample did not reproduce natively: {cex}")
        if len(rep.samples) < 12:
            rep.add_sample({"query": key, "verdict": r["verdict"], "encode_s": round(r["encode_s"], 2), "solve_s": round(r["solve_s"], 2), "bool_vars": r["nvars"]})
    ecnt = 0
    for n in (3, 4):
        c, ebad = native_corpus(n)
        ecnt += c
        for b in ebad[:5]:
            rep.add_violation(Violation(PROP, ["native-evans", "evans:" + "+".join(b["bad"])], f"{b['desc']}: {'+'.join(b['bad'])} (got {b.get('observed') or b.get('twice')}; native validation corpus)", {"property": PROP, "evans": True, **b}))
    c, ebad = native_api_corpus(3)
    ecnt += c
    for b in ebad[:5]:
        rep.add_violation(Violation(PROP, ["native-evans-api", "evans:" + "+".join(b["bad"])], f"{b['desc']}: {'+'.join(b['bad'])} (got {b.get('observed')}; native validation corpus)", {"property": PROP, "evans": True, **b}))
    cnt, bad = validate_native(3)
    cnt += ecnt
    for b in bad:
        rep.add_violation(Violation(PROP, ["native"], f"LV-DAG round trip of nodes={b['nodes']} di={b['di']} bi={b['bi']} gives {b['observed']} (native validation corpus)", {"property": PROP, **b}))
    rep.nontrivial.add("native-corpus")
    rep.extra.update({"states": max(states, 1), "transitions": max(rep.obligations, 1), "traces_validated_against_impl": cnt})
    from .. import history_runs

    history_runs.run(rep, PROP)
    return rep.finish()


def replay(payload: dict) -> int:
    if payload.get("kind") == "history":
        from .. import history_runs

        return history_runs.replay(PROP, payload)
    from y0.dsl import Variable as V

    if payload.get("api"):
        r = native_api([V(n) for n in payload["nodes"]], [V(n) for n in payload["latents"]], [(V(u), V(v)) for u, v in payload["di"]], [(V(u), V(v)) for u, v in payload["bi"]])
        print(r)
        print("reproduced" if r["bad"] else "not reproduced")
        return 1 if r["bad"] else 0
    if payload.get("evans"):
        r = native_evans([V(n) for n in payload["nodes"]], [V(n) for n in payload["latents"]], [(V(u), V(v)) for u, v in payload["edges"]], [V(n) for n in payload["order"]])
        print(r)
        print("reproduced" if r["bad"] else "not reproduced")
        return 1 if r["bad"] else 0
    r = native_case([V(n) for n in payload["nodes"]], [(V(u), V(v)) for u, v in payload["di"]], [(V(u), V(v)) for u, v in payload["bi"]], [V(n) for n in payload.get("order", payload["nodes"])])
    print(r)
    print("reproduced" if r["bad"] else "not reproduced")
    return 1 if r["bad"] else 0

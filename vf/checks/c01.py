"""C01 — ID estimands equal the true interventional distribution (engine SEM, DESIGN §8)."""

from __future__ import annotations

import time

from ..common import Report, Unsupported, Violation, pmap, seed, short, tier
from ..graphs import CURATED, GSpec, family, xy_queries
from ..sem import exact
from ..sem.denote import Denoter, free_names
from ..sem.harness import envs_for, grid_params, hashseed, normalise_rows, params_from_json, params_to_json
from ..sem.l2 import TARGET, SymL2
from ..sem.rat import Decider

PROP = "C01"
TIMEOUT_MS = {"quick": 10000, "thorough": 30000}


def obs_vocab(nodes):
    nodes = set(nodes)

    def check(pop, dos, names):
        if pop != TARGET:
            raise Unsupported(f"population-tagged term PP[{pop}] in an ID estimand")
        if any(d for d in dos):
            raise Unsupported("intervention subscript in an ID estimand (not observational)")
        extra = set(names) - nodes
        if extra:
            raise Unsupported(f"estimand mentions {sorted(extra)} which are not nodes of the graph")

    return check


def run_id(g: GSpec, X, Y):
    from y0.algorithm.identify import identify_outcomes
    from y0.dsl import Variable

    res = identify_outcomes(g.to_nx(), {Variable(x) for x in X}, {Variable(y) for y in Y})
    if len(X) == 1 or len(Y) == 1:
        # the documented single-Variable form of the arguments must give the same answer
        one = lambda S: Variable(next(iter(S))) if len(S) == 1 else {Variable(s) for s in S}
        alt = identify_outcomes(g.to_nx(), one(X), one(Y))
        if alt != res:
            raise AssertionError(f"identify_outcomes gives {alt} when a singleton is passed as a bare Variable but {res} when passed as a set")
    return res


def trace_lines():
    """Wrap the module-level line helpers of id_std so a run records which lines fired."""
    from y0.algorithm.identify import id_std

    fired: list = []
    if getattr(id_std, "_vf_wrapped", False):
        return id_std._vf_fired
    for name in ("line_1", "line_2", "line_3", "line_4", "line_7", "_get_single_district", "p_parents"):
        orig = getattr(id_std, name)

        def wrapper(*a, _orig=orig, _name=name, **k):
            fired.append(_name)
            return _orig(*a, **k)

        setattr(id_std, name, wrapper)
    id_std._vf_wrapped = True
    id_std._vf_fired = fired
    return fired


def check_case(g: GSpec, X, Y, est, model: SymL2, den: Denoter, env_mode: str, timeout_ms: int):
    """All solver obligations for one returned estimand.  Returns a result dict."""
    out = {"queries": 0, "unsat": 0, "sat": 0, "unknown": 0, "secs": 0.0, "violation": None, "unknown_envs": []}
    try:
        names = free_names(est) | set(X) | set(Y)
    except Unsupported as e:
        out["violation"] = {"kind": "vocabulary", "why": str(e)}
        return out
    for env in envs_for(names, model.card, env_mode):
        try:
            lhs = den.ev(est, env, env)
        except Unsupported as e:
            out["violation"] = {"kind": "vocabulary", "why": str(e), "env": env}
            return out
        rhs = model.prob_rat(TARGET, {x: env[x] for x in X}, {y: env[y] for y in Y})
        dec = Decider(model.constraints, timeout_ms, model.params)
        verdict, m, dt = dec.differ(lhs, rhs)
        out["queries"] += 1
        out["secs"] += dt
        out[verdict] = out.get(verdict, 0) + 1
        if verdict == "unknown":
            out["unknown_envs"].append(env)
        if verdict == "sat":
            params = model.model_to_params(m)
            cards = (dict(model.card), model.lat_card)
            rep = replay_values(g, X, Y, est, env, params, *cards)
            if rep is None:  # algebraic model did not survive rounding: look on the rational grid
                for shift in range(12):
                    params = normalise_rows(grid_params(model.params, shift), None)
                    rep = replay_values(g, X, Y, est, env, params, *cards)
                    if rep is not None:
                        break
            if rep is None:
                out["violation"] = {"kind": "noreplay", "env": env}
            else:
                out["violation"] = {"kind": "wrong", "env": env, "params": params_to_json(params), "est": rep[0], "truth": rep[1], "card": cards[0], "lat_card": cards[1]}
            return out
    return out


def replay_values(g, X, Y, est, env, params, card=None, lat_card=2):
    """Exact evaluation; returns (est, truth) strings if they differ, else None."""
    w = exact.ExactL2(g, params, card=card, lat_card=lat_card)
    try:
        a = exact.evaluate(est, w, env)
    except exact.Undefined as e:
        return (f"undefined: {e}", "n/a")
    b = w.prob(TARGET, {x: env[x] for x in X}, {y: env[y] for y in Y})
    if a != b:
        return (str(a), str(b))
    return None


def work(job):
    g, env_mode, timeout_ms, queries = job[:4]
    card, lat_card = job[4] if len(job) > 4 else (None, 2)
    fired = trace_lines()
    model = SymL2(g, card=card, lat_card=lat_card)
    den = Denoter(model, vocab=obs_vocab(g.nodes))
    res = []
    for X, Y in (queries if queries is not None else xy_queries(g.nodes)):
        X, Y = sorted(X), sorted(Y)
        del fired[:]
        rec = {"g": g.to_json(), "X": X, "Y": Y, "ternary": card is not None}
        try:
            est = run_id(g, X, Y)
        except Exception as e:  # noqa: BLE001 — totality is C02's business; counted here
            rec["status"] = "crash"
            rec["exc"] = f"{type(e).__name__}: {e}"
            res.append(rec)
            continue
        rec["lines"] = sorted(set(fired))
        rec["line6_after_7"] = "line_7" in fired and fired and fired[-1] == "p_parents"
        if est is None:
            rec["status"] = "unidentifiable"
            res.append(rec)
            continue
        rec["status"] = "estimand"
        rec["est"] = str(est)
        rec.update(check_case(g, X, Y, est, model, den, env_mode, timeout_ms))
        res.append(rec)
    return res


def deep5_jobs(env_mode, timeout_ms):
    """5-node inputs whose reference ID trace nests line 6 / line 7 below a line-7 frame (inputs only, see
    tools/gen_corpus5.py); grouped by graph."""
    import json
    from pathlib import Path

    data = json.loads((Path(__file__).resolve().parent.parent / "data" / "id_deep5.json").read_text())
    by_g: dict = {}
    for c in data["cases"]:
        g = GSpec.from_json(c["g"])
        by_g.setdefault(g, []).append((frozenset(c["X"]), frozenset(c["Y"])))
    return [(g, env_mode, timeout_ms, qs) for g, qs in by_g.items()]


def ternary_jobs(t: str):
    """The same inputs over models with three-valued variables (observed and latent): the estimand is an expression in
    the distribution only, so its correctness must not depend on the domain sizes."""
    jobs = []
    for g in family(3):
        jobs.append((g, "all", TIMEOUT_MS[t], None, ({n: 3 for n in g.nodes}, 3)))
    for name, g in CURATED.items():
        if len(g.nodes) <= 4:
            jobs.append((g, "diag", 5000, None, ({n: 3 for n in g.nodes}, 2)))
    if t == "thorough":
        k = 0
        for i, g in enumerate(family(4, labellings=("fwd",), n_min=4)):
            if i % 4 == seed() % 4:
                # mixed domain sizes: node j has 2 + (j + k) % 2 values; latents stay binary
                k += 1
                jobs.append((g, "diag", 5000, None, ({n: 2 + (j + k) % 2 for j, n in enumerate(g.nodes)}, 2)))
    return jobs


def jobs_for(t: str):
    jobs = []
    if t == "quick":
        for g in family(3):
            jobs.append((g, "all", TIMEOUT_MS[t], None))
        for name, g in CURATED.items():
            if len(g.nodes) <= 4:
                jobs.append((g, "all", TIMEOUT_MS[t], None))
            else:
                jobs.append((g, "diag", TIMEOUT_MS[t], None))
        # a deterministic slice of A(4): every 8th class, forward labelling
        for i, g in enumerate(family(4, labellings=("fwd",), n_min=4)):
            if i % 8 == seed() % 8:
                jobs.append((g, "diag", TIMEOUT_MS[t], None))
        jobs += deep5_jobs("diag", 3000)
        jobs += ternary_jobs(t)
    else:
        jobs += ternary_jobs(t)
        jobs += deep5_jobs("all", TIMEOUT_MS[t])
        for g in family(4):
            jobs.append((g, "all", TIMEOUT_MS[t], None))
        for name, g in CURATED.items():
            jobs.append((g, "all", TIMEOUT_MS[t], None))
    return jobs


def run() -> int:
    t = tier()
    rep = Report(PROP, "translation_validation")
    rep.functions = [
        "y0.algorithm.identify.identify_outcomes (run natively on every enumerated (G, X, Y))",
        "y0.algorithm.identify.id_std.identify / line_1..line_7 / p_parents",
        "returned y0.dsl Expression -> z3 polynomial terms (vf/sem/denote.py)",
    ]
    rep.bounds = {
        "graphs": "both tiers: 382 five-node (graph, X, Y) inputs whose reference ID trace reaches line 6 or a second line 7 below a line-7 frame (104 distinct trace signatures, vf/data/id_deep5.json); quick: every ADMG with <=3 nodes up to isomorphism under two labellings + curated 4/5-node graphs + 1/8 of the 4-node classes; thorough: every ADMG with <=4 nodes (1567 classes at n=4) under two labellings + curated list",
        "queries": "all disjoint non-empty (X, Y)",
        "models": "all positive SCMs with binary observed variables and one binary latent per bidirected edge (every parameter a z3 Real); "
        "ternary layer: every graph with <= 3 nodes with three-valued observed and latent variables (all value assignments), the curated <= 4-node graphs with "
        "three-valued observed variables (all-equal assignments), thorough: a quarter of the 4-node classes with mixed domain sizes 2/3 (all-equal assignments, 5 s per query)",
        "value_assignments": "all assignments of the free variables (curated 5-node graphs and the quick A(4) slice: the all-equal assignments)",
        "per_query_timeout_ms": TIMEOUT_MS[t],
        "PYTHONHASHSEED": hashseed(),
    }
    rep.assumptions = [
        "semantics of expressions as fixed in DESIGN.md §2 (strict reading of Sum)",
        "z3 5.1 QF_NRA verdicts; 'unknown' is inconclusive and not counted as discharged",
        "cardinality 2 or 3 for observed and latent variables as listed under bounds.models; larger domains are outside the claim",
    ]
    rep.rule = (
        "cases = (graph, X, Y) triples given to identify_outcomes; a case is non-trivial when an estimand is "
        "returned that contains a conditional, a product or a fraction (not a bare joint/marginal); distinct by "
        "(graph key, X, Y)"
    )
    jobs = jobs_for(t)
    lines_seen: dict = {}
    for job, st, res in pmap(work, jobs):
        if st != "ok":
            rep.harness_errors.append(short(res, 600))
            continue
        for r in res:
            rep.cases += 1
            g = GSpec.from_json(r["g"])
            key = f"{g.key()} do({','.join(r['X'])}) -> {','.join(r['Y'])}"
            rep.count(r["status"])
            for ln in r.get("lines", []):
                lines_seen[ln] = lines_seen.get(ln, 0) + 1
            if r["status"] != "estimand":
                continue
            if any(c in r["est"] for c in "|*/"):
                rep.nontrivial.add(key)
            rep.obligations += r["queries"]
            rep.discharged += r["unsat"]
            rep.refuted += r["sat"]
            rep.inconclusive += r["unknown"]
            rep.solver_s += r["secs"]
            if r["unknown"]:
                rep.inconclusive_samples.append({"case": key, "envs": r["unknown_envs"][:2]})
            if len(rep.samples) < 6 and r["queries"] and any(c in r["est"] for c in "|*/"):
                rep.add_sample({"case": key, "estimand": r["est"], "queries": r["queries"], "unsat": r["unsat"]})
            v = r["violation"]
            if v is None:
                continue
            payload = {"property": PROP, "kind": "id", "graph": r["g"], "X": r["X"], "Y": r["Y"], "hashseed": hashseed(), "estimand_seen": r["est"], "lines": r.get("lines")}
            payload.update(v)
            if v["kind"] == "noreplay":
                rep.harness_errors.append(f"sat model did not replay for {key}")
                continue
            what = (
                f"ID returned {short(r['est'], 120)} for {key}: "
                + (f"value {v['est']} != P(y|do x) = {v['truth']} at {v['env']}" if v["kind"] == "wrong" else v["why"])
            )
            keys = [key]
            if r.get("line6_after_7"):
                keys.append("callsite:line6-after-line7")
            rep.add_violation(Violation(PROP, keys, what, payload))
    rep.extra["id_lines_fired"] = lines_seen
    from .. import history_runs

    history_runs.run(rep, PROP)
    return rep.finish()


def replay(payload: dict) -> int:
    if payload.get("kind") == "history":
        from .. import history_runs

        return history_runs.replay(PROP, payload)
    g = GSpec.from_json(payload["graph"])
    X, Y = payload["X"], payload["Y"]
    est = run_id(g, X, Y)
    print("graph", g.key(), "X", X, "Y", Y)
    print("estimand returned by y0 now:", est)
    if est is None:
        print("no estimand now; nothing to evaluate")
        return 0
    if payload["kind"] != "wrong":
        print("recorded:", payload.get("why"))
        return 1
    params = params_from_json(payload["params"])
    rv = replay_values(g, X, Y, est, payload["env"], params, payload.get("card"), payload.get("lat_card", 2))
    if rv is None:
        print("estimand value equals the interventional probability on the recorded model: not reproduced")
        return 0
    print(f"estimand value {rv[0]} != P(y | do x) = {rv[1]} at {payload['env']}: reproduced")
    return 1

"""C08 — IDC* estimands equal the conditional counterfactual probability (engine SEM, ScmL3)."""

from __future__ import annotations

import itertools as itt

from ..common import Report, Unsupported, Violation, pmap, seed, short, tier
from ..events import atom_keys, atoms_for_model, ev_str, event_env, to_y0_event
from ..graphs import CURATED, GSpec, family
from ..sem import exact
from ..sem.denote import Denoter
from ..sem.harness import grid_params, hashseed, params_from_json, params_to_json
from ..sem.l2 import TARGET
from ..sem.l3 import SymL3
from ..sem.rat import Decider, Rat
from . import c07
from .c13 import D5_KEY as C13_D5_KEY
from .c13 import free_cp_names

PROP = "C08"
TIMEOUT_MS = {"quick": 4000, "thorough": 20000}
D5_KEY = "idc_star:final-normalisation-sums-over-bound-or-subscript-names"
D20_KEY = "idc_star:outcome-and-condition-on-one-variable-merged"
D21_KEY = "idc_star:reflexive-subscript-node-lookup"
D22_KEY = "idc_star:zero-joint-estimand-normalised"
D23_KEY = "idc_star:minus-subscript-for-a-variable-the-event-sets-to-plus"
D24_KEY = "idc_star:remaining-condition-downstream-of-an-exchanged-condition-keeps-its-world"
D23_CALLSITE = "__d23_callsite__"  # trace-only: rule 2 exchanged a condition whose event value is 1 (written as -Z)


def polarity_lost(ev, expr, some_world=False):
    """The output carries a '-V' subscript although every atom of the event gives V the value '+V' (1).
    With some_world=True: although SOME atom of the event gives V the value 1 (V occurs in several worlds with
    different values); returns the set of such variables."""
    from y0.dsl import CounterfactualVariable, Fraction, Probability, Product, Sum

    env, amb = event_env(ev)
    plus = {v for v, val in env.items() if val == 1 and v not in amb}
    if some_world:
        plus = {v for v, _, val in ev if val == 1}
    if not plus:
        return False

    def walk(e):
        if isinstance(e, Probability):
            return any(
                isinstance(v, CounterfactualVariable) and any((not i.star) and i.name in plus for i in v.interventions)
                for v in itt.chain(e.children, e.parents)
            )
        if isinstance(e, Product):
            return any(walk(f) for f in e.expressions)
        if isinstance(e, Fraction):
            return walk(e.numerator) or walk(e.denominator)
        if isinstance(e, Sum):
            return walk(e.expression)
        return False

    if some_world:
        return {v for v in plus if polarity_lost([(v, (), 1)], expr)}
    return walk(expr)
_cstate = {"patched": False}


def _install_conditional_wrapper():
    """Harness-side wrapper around Expression.conditional: flags D5 and, in corrected mode, normalises properly."""
    from y0 import dsl

    if _cstate["patched"]:
        return
    orig = dsl.Expression.conditional

    def wrapper(self, ranges):
        r = {v.get_base().name for v in dsl._upgrade_variables(ranges)}
        y0_comp = {c.get_base().name for c in self._iter_variables()} - r
        proper = free_cp_names(self) - r
        if not isinstance(self, dsl.Probability) and y0_comp != proper:
            c07.TRACE[D5_KEY] = True
            if c07._state["corrected"]:
                return self.normalize_marginalize([dsl.Variable(n) for n in sorted(proper)]) if proper else self
        return orig(self, ranges)

    dsl.Expression.conditional = wrapper
    _cstate["patched"] = True


def _install_rule2_wrapper():
    """Harness-side wrapper around cf_rule_2_of_do_calculus_applies: flags D24 when a condition is exchanged for an
    intervention while another condition lies downstream of it in the counterfactual graph (IDC* then subscripts
    the outcomes only; the downstream condition would have to move to the intervened world as well).  In corrected
    mode such an exchange is refused, so that IDC* falls through to the plain conditional of the joint."""
    from y0.algorithm.identify import idc_star as mod_or_fn
    import importlib

    mod = importlib.import_module("y0.algorithm.identify.idc_star")
    if _cstate.get("rule2"):
        return
    orig = mod.cf_rule_2_of_do_calculus_applies

    def wrapper(cf_graph, outcomes, condition, **kw):
        res = orig(cf_graph, outcomes, condition, **kw)
        others = list(kw.get("other_conditions") or ())
        if res and any(o != condition and condition in cf_graph.ancestors_inclusive(o) for o in others):
            c07.TRACE[D24_KEY] = True
            if c07._state["corrected"]:
                return False
        if res and condition.get_base().name in _cstate.get("plus_conditions", ()):
            # the exchange will write the subscript -Z although the event says Z = 1 (known finding D23); the output
            # may then be any wrong thing, even Zero().  In corrected mode the exchange is refused.
            c07.TRACE[D23_CALLSITE] = True
            if c07._state["corrected"]:
                return False
        return res

    mod.cf_rule_2_of_do_calculus_applies = wrapper
    _cstate["rule2"] = True


def run_idc_star(g: GSpec, gamma, delta, corrected=False):
    from y0.algorithm.identify import Unidentifiable, idc_star

    c07._install_wrappers()
    _install_conditional_wrapper()
    _install_rule2_wrapper()
    c07.TRACE.clear()
    c07._state["corrected"] = corrected
    _cstate["plus_conditions"] = {v for v, _, val in delta if val == 1}
    try:
        return "ok", idc_star(g.to_nx(), to_y0_event(gamma), to_y0_event(delta))
    except Unidentifiable:
        return "unidentifiable", None
    except ValueError as e:
        return "rejected", str(e)
    finally:
        c07._state["corrected"] = False


def exact_values(g, gamma, delta, expr, env, params):
    w = exact.ExactL3(g, params)
    joint = w.prob_cw(TARGET, atoms_for_model(gamma + delta))
    pd = w.prob_cw(TARGET, atoms_for_model(delta))
    truth = joint / pd if pd else None
    try:
        val = exact.evaluate(expr, w, env, ienv={})
    except exact.Undefined as e:
        return f"undefined: {e}", str(truth), True
    return str(val), str(truth), (pd != 0 and val != truth)


def check_output(g, gamma, delta, expr, model, den, timeout_ms):
    from y0.dsl import Zero

    out = {"queries": 0, "unsat": 0, "sat": 0, "unknown": 0, "secs": 0.0, "violation": None, "skip": None}
    joint = model.prob_cw(TARGET, atoms_for_model(gamma + delta))
    pd = model.prob_cw(TARGET, atoms_for_model(delta))
    if pd.is_zero():
        out["violation"] = {"kind": "answered_impossible_condition", "why": "the conditioning event is impossible in every model but IDC* answered instead of rejecting it"}
        return out
    truth = joint / pd
    envs, why = c07.eval_envs(expr, gamma + delta)
    if envs is None:
        out["skip"] = why
        return out
    for env in envs:
        try:
            lhs = den.ev(expr, env, {})
        except Unsupported as e:
            out["violation"] = {"kind": "vocabulary", "why": str(e), "env": env}
            return out
        verdict, m, dt = Decider(model.constraints, timeout_ms, model.params).differ(lhs, truth)
        out["queries"] += 1
        out["secs"] += dt
        out[verdict] += 1
        if verdict == "sat":
            cands = [model.model_to_params(m)] + [grid_params(model.params, s) for s in range(4)]
            for params in cands:
                try:
                    a, b, differ = exact_values(g, gamma, delta, expr, env, params)
                except Exception:  # noqa: BLE001
                    continue
                if differ and not b.startswith("-"):
                    out["violation"] = {"kind": "wrong", "env": env, "params": params_to_json(params), "est": a, "truth": b}
                    return out
            out["violation"] = {"kind": "noreplay", "env": env}
            return out
    return out


def explain(g, gamma, delta, trace, model, den, timeout_ms, expr):
    flags = sorted(k for k in trace if trace[k] and k != D23_CALLSITE)
    callsite23 = bool(trace.get(D23_CALLSITE))
    ev = gamma + delta
    if expr is not None and c07.bound_literal_clash(ev, expr):
        flags = sorted(set(flags) | {c07.D14_KEY})
    if any((v, val) in s2 for v, s1, val in ev for _, s2, _ in ev):
        flags = sorted(set(flags) | {c07.D19_KEY})
    if expr is not None and polarity_lost(ev, expr):
        flags = sorted(set(flags) | {D23_KEY})
    elif expr is not None and D23_KEY not in flags:
        # V occurs in several worlds with different values and the output writes '-V': the same notation defect,
        # attributed only if reading those subscripts as V = 1 makes the output right (decided by the solver)
        cand = polarity_lost(ev, expr, some_world=True)
        if cand:
            joint = model.prob_cw(TARGET, atoms_for_model(gamma + delta))
            pd = model.prob_cw(TARGET, atoms_for_model(delta))
            envs, _ = c07.eval_envs(expr, gamma + delta)
            ok = envs is not None and not pd.is_zero()
            for env in envs or []:
                try:
                    lhs = den.ev(expr, env, {v: 1 for v in cand})
                except Unsupported:
                    ok = False
                    break
                verdict, _, _ = Decider(model.constraints, timeout_ms, model.params).differ(lhs, joint / pd)
                if verdict != "unsat":
                    ok = False
                    break
            if ok:
                flags = sorted(set(flags) | {D23_KEY})
    if {v for v, _, _ in gamma} & {v for v, _, _ in delta}:
        # the same base variable occurs (in different worlds) among the outcomes and among the conditions: when the
        # counterfactual graph merges the two nodes, get_new_outcomes_and_conditions keeps only one role
        flags = sorted(set(flags) | {D20_KEY})
    if callsite23 and not flags:
        # nothing in the output shows the lost polarity (e.g. Zero()): attributed to D23 only if the real algorithm,
        # re-run with that exchange refused, is right or refuses
        try:
            status, e2 = run_idc_star(g, gamma, delta, corrected=True)
        except Exception:  # noqa: BLE001
            return []
        if status != "ok":
            return [D23_KEY]
        chk = check_output(g, gamma, delta, e2, model, den, timeout_ms)
        if chk["violation"] is None and chk["unknown"]:
            return ["attribution-undecided"]
        return [D23_KEY] if chk["violation"] is None else []
    if not flags:
        return []
    if (c07.CONDITION_ONLY | {D20_KEY, D23_KEY}) & set(flags):
        return flags
    try:
        status, e2 = run_idc_star(g, gamma, delta, corrected=True)
    except Exception:  # noqa: BLE001
        return []
    flags = sorted(set(flags) | {k for k in c07.TRACE if c07.TRACE[k]})
    if c07.CONDITION_ONLY & set(flags) or status != "ok":
        return flags
    chk = check_output(g, gamma, delta, e2, model, den, timeout_ms)
    if chk["violation"] is None and not chk["unknown"]:
        return flags
    if chk["violation"] is None and chk["unknown"]:
        return ["attribution-undecided"]  # the solver timed out on the corrected re-run: neither excused nor reported
    return []


def work(job):
    g, pairs, timeout_ms = job
    model = SymL3(g)
    den = Denoter(model, vocab=c07.single_world_vocab(g.nodes))
    res = []
    for gamma, delta in pairs:
        rec = {"g": g.to_json(), "gamma": c07_json(gamma), "delta": c07_json(delta), "evs": f"P({ev_str(gamma)} | {ev_str(delta)})"}
        try:
            status, expr = run_idc_star(g, gamma, delta)
        except Exception as e:  # noqa: BLE001
            rec["status"] = "crash"
            rec["exc"] = f"{type(e).__name__}: {short(e, 160)}"
            res.append(rec)
            continue
        trace = dict(c07.TRACE)
        rec["status"] = status
        pd = model.prob_cw(TARGET, atoms_for_model(delta))
        rec["delta_possible"] = not pd.is_zero()
        if status == "ok":
            rec["est"] = str(expr)
            rec.update(check_output(g, gamma, delta, expr, model, den, timeout_ms))
            if rec["violation"] is not None and rec["violation"]["kind"] in ("wrong", "vocabulary"):
                rec["explained"] = explain(g, gamma, delta, trace, model, den, timeout_ms, expr)
        elif status == "rejected" and rec["delta_possible"]:
            rec["violation"] = {"kind": "rejected_possible_condition", "why": f"IDC* rejected a conditioning event that has positive probability: {expr}"}
            rec["explained"] = sorted(k for k in trace if trace[k])
        res.append(rec)
    return res


def c07_json(ev):
    return [[a[0], [list(p) for p in a[1]], a[2]] for a in ev]


def pairs_for(nodes, max_sub, max_g, max_d, stride=1, offset=0, shapes=None):
    """(gamma, delta) with disjoint atom keys; gamma has <= max_g atoms, delta <= max_d atoms (or exactly `shapes`)."""
    keys = atom_keys(nodes, max_sub)
    i = 0
    for kg in range(1, max_g + 1):
        for kd in range(1, max_d + 1):
            if shapes is not None and (kg, kd) not in shapes:
                continue
            for ks in itt.combinations(keys, kg + kd):
                if len({s for _, s in ks if s}) > 2:
                    continue
                for gsel in itt.combinations(range(kg + kd), kg):
                    for vals in itt.product((0, 1), repeat=kg + kd):
                        i += 1
                        if i % stride != offset % stride:
                            continue
                        atoms = [(v, s, val) for (v, s), val in zip(ks, vals)]
                        gamma = tuple(a for j, a in enumerate(atoms) if j in gsel)
                        delta = tuple(a for j, a in enumerate(atoms) if j not in gsel)
                        yield gamma, delta


def jobs_for(t):
    jobs = []
    to = TIMEOUT_MS[t]

    def add(g, pairs, chunk=300):
        pairs = list(pairs)
        for i in range(0, len(pairs), chunk):
            jobs.append((g, pairs[i : i + chunk], to))

    if t == "quick":
        for g in family(2, labellings=("fwd",)):
            add(g, pairs_for(g.nodes, 1, 1, 2))
        for g in family(3, labellings=("fwd",), n_min=3):
            add(g, pairs_for(g.nodes, 1, 1, 1, stride=4, offset=seed()))
            # one outcome, two conditions, in both listing orders (IDC* walks the conditions in the order given, and
            # each is tested given the others): plain atoms
            both = []
            for ga, de in pairs_for(g.nodes, 0, 1, 2, shapes=[(1, 2)]):
                both += [(ga, de), (ga, tuple(reversed(de)))]
            add(g, both)
            # several outcomes, one condition: rule 2 must hold for every outcome before a condition becomes an intervention
            add(g, pairs_for(g.nodes, 0, 2, 1, shapes=[(2, 1)]))
            add(g, pairs_for(g.nodes, 1, 2, 1, shapes=[(2, 1)], stride=48, offset=seed()))
            # one outcome carrying a two-variable subscript given one plain condition (the merge of worlds then looks at
            # several differing parents at once): a stride
            two = [(ga, de) for ga, de in pairs_for(g.nodes, 2, 1, 1) if len(ga[0][1]) == 2 and not de[0][1]]
            add(g, two[seed() % 6 :: 6])
        g = CURATED["fig9"]
        add(g, [((("Y", (("X", 0),), 0),), (("X", (), 1), ("Z", (("D", 0),), 0), ("D", (), 0)))])
    else:
        for g in family(2):
            add(g, pairs_for(g.nodes, 2, 2, 2, stride=3, offset=seed()))
        for g in family(3, n_min=3):
            add(g, pairs_for(g.nodes, 1, 1, 1))
            add(g, pairs_for(g.nodes, 1, 1, 2, stride=16, offset=seed()))
            add(g, pairs_for(g.nodes, 0, 2, 1, shapes=[(2, 1)]))
            add(g, pairs_for(g.nodes, 1, 2, 1, shapes=[(2, 1)], stride=6, offset=seed()))
        for name in ("fig9", "frontdoor", "napkin", "verma"):
            g = CURATED[name]
            add(g, pairs_for(g.nodes, 1, 1, 1, stride=4, offset=seed()))
    return jobs


def run() -> int:
    t = tier()
    rep = Report(PROP, "translation_validation")
    rep.functions = [
        "y0.algorithm.identify.idc_star (lines 1-5), cf_rule_2_of_do_calculus_applies, get_new_outcomes_and_conditions (run natively)",
        "id_star, make_counterfactual_graph, are_d_separated (reached through it); Expression.conditional (final normalisation)",
        "returned Expression -> z3 terms over a symbolic response-type model (vf/sem/l3.py)",
    ]
    rep.bounds = {
        "graphs": "quick: ADMGs <=2 nodes (1 outcome atom, <=2 condition atoms), 3 nodes (1+1 atoms, every 4th pair; 2 outcome atoms + 1 condition atom: all without subscripts, every 48th with subscripts; 1 outcome atom + 2 condition atoms without subscripts in both listing orders), subscripts <=1, + the figure-9 query; thorough: two labellings, <=2 nodes with 2+2 atoms and subscripts <=2 (every 3rd), 3 nodes 1+2 atoms (every 16th) and 2+1 atoms (all without subscripts, every 6th with), curated 4/5-node graphs (every 4th)",
        "models": "all positive functional SCMs over binary variables, one binary latent per bidirected edge (response-type distributions free)",
        "per_query_timeout_ms": TIMEOUT_MS[t],
        "PYTHONHASHSEED": hashseed(),
    }
    rep.assumptions = [
        "reading of outputs as for C07; equality decided as out * P(delta) = P(gamma and delta) under P(delta) > 0 (structural)",
        "a conditioning event is 'impossible' when no response vector satisfies it (structural zero in the response-type model)",
    ]
    rep.rule = "cases = (graph, outcome event, condition event) given to idc_star; non-trivial = an expression was returned and solver-checked; distinct by (graph key, events)"
    for job, st, res in pmap(work, jobs_for(t)):
        if st != "ok":
            rep.harness_errors.append(short(res, 600))
            continue
        for r in res:
            rep.cases += 1
            g = GSpec.from_json(r["g"])
            key = f"{g.key()} {r['evs']}"
            rep.count(r["status"])
            base = {"property": PROP, "graph": r["g"], "gamma": r["gamma"], "delta": r["delta"], "hashseed": hashseed()}
            if r["status"] == "crash":
                p = dict(base, kind="crash", exc=r["exc"])
                keys = [key]
                atoms = c07.ev_from_json(r["gamma"]) + c07.ev_from_json(r["delta"])
                if r["exc"].split(":")[0] in ("NodeNotFound", "NetworkXError") and any(v in dict(s_) for v, s_, _ in atoms):
                    keys.append(D21_KEY)
                if r["exc"].startswith("ZeroDivisionError"):
                    keys.append(D22_KEY)
                rep.add_violation(Violation(PROP, keys, f"idc_star raised {r['exc']} for {key}", p))
                continue
            if r["status"] == "ok":
                if r.get("skip"):
                    rep.count("ambiguous_reading")
                else:
                    rep.nontrivial.add(key)
                    rep.obligations += r["queries"]
                    rep.discharged += r["unsat"]
                    rep.refuted += r["sat"]
                    rep.inconclusive += r["unknown"]
                    rep.solver_s += r["secs"]
                    if r["unknown"]:
                        rep.inconclusive_samples.append(key)
                    if len(rep.samples) < 8 and r["unsat"] and ("/" in r["est"] or "Sum" in r["est"]):
                        rep.add_sample({"case": key, "output": r["est"], "queries": r["queries"], "unsat": r["unsat"]})
            v = r.get("violation")
            if not v:
                continue
            if v["kind"] == "noreplay":
                rep.harness_errors.append(f"sat model did not replay for {key}")
                continue
            p = dict(base, est_seen=r.get("est"), **v)
            what = f"idc_star returned {short(r.get('est'), 120)} for {key}: " + (
                f"value {v['est']} != P(gamma | delta) = {v['truth']} at {v['env']}" if v["kind"] == "wrong" else v["why"]
            )
            if r.get("explained") == ["attribution-undecided"]:
                # a wrong output at a call site of a known finding, and the solver timed out when asked whether the
                # harness-side correction makes it right: inconclusive (listed), neither a known finding nor a violation
                rep.inconclusive += 1
                rep.inconclusive_samples.append(key + " (attribution to a known finding undecided: solver timeout on the corrected re-run)")
                continue
            rep.add_violation(Violation(PROP, [key] + list(r.get("explained") or []), what, p))
    if not rep.samples:
        rep.add_sample({"note": "no verified non-trivial output in this run"})
    from .. import history_runs

    history_runs.run(rep, PROP)
    return rep.finish()


def replay(payload: dict) -> int:
    if payload.get("kind") == "history":
        from .. import history_runs

        return history_runs.replay(PROP, payload)
    g = GSpec.from_json(payload["graph"])
    gamma = c07.ev_from_json(payload["gamma"])
    delta = c07.ev_from_json(payload["delta"])
    print("graph", g.key(), f"P({ev_str(gamma)} | {ev_str(delta)})")
    try:
        status, expr = run_idc_star(g, gamma, delta)
    except Exception as e:  # noqa: BLE001
        print(f"idc_star raised {type(e).__name__}: {e}")
        return 1 if payload["kind"] == "crash" else 0
    print("idc_star now:", status, expr)
    kind = payload["kind"]
    if kind == "crash":
        print("not reproduced")
        return 0
    if kind == "rejected_possible_condition":
        bad = status == "rejected"
    elif kind == "answered_impossible_condition":
        bad = status == "ok"
    elif kind == "wrong" and status == "ok":
        a, b, bad = exact_values(g, gamma, delta, expr, payload["env"], params_from_json(payload["params"]))
        print(f"expression value {a}, P(gamma | delta) = {b}")
    elif kind == "vocabulary" and status == "ok":
        model = SymL3(g)
        chk = check_output(g, gamma, delta, expr, model, Denoter(model, vocab=c07.single_world_vocab(g.nodes)), 30000)
        bad = chk["violation"] is not None and chk["violation"]["kind"] == "vocabulary"
    else:
        bad = False
    print("reproduced" if bad else "not reproduced")
    return 1 if bad else 0

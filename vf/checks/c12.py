"""C12 — printing and parsing are inverse and printing is unambiguous.

parse_y0 is eval-based and cannot be executed symbolically; it is run natively on the printed form
of every expression of the family.  The solver decides the *meaning* clause: parse(str(e)) and e
denote the same function of every distribution (needed because the parsed object may legitimately
have another shape).  Object/str equality on the un-nested-division sub-family is asserted directly.
"""

from __future__ import annotations

import itertools as itt

from ..common import Report, Violation, pmap, seed, short, tier
from ..exprs import from_json, names_of, to_json
from ..sem.exprcheck import compare, exact_differ
from ..sem.harness import hashseed, params_from_json

PROP = "C12"
BASE_NAMES = {"A", "B", "C", "X"}


def leaves():
    from y0.dsl import PP, A, B, C, One, P, Pi1, Q, X, Zero
    from y0.dsl import TARGET_DOMAIN

    return [
        P(A), P(A, B), P(A | B), P(A & B | C), P(A | B & C), P(C, B, A),
        P(-A), P(+A | B), P(A | -B), P(-A, +B),
        P[X](A), P[X](A | B), P[X](A, B), P[+X](A), P[X, B](A), P[-X, +B](A | C),
        P(A @ -X, B), P(A @ -X | B @ +X), P(-A @ +X), P(A @ (X, +B), C @ X),
        PP[Pi1](A), PP[Pi1](A | B), PP[Pi1][X](A), PP[Pi1][X](A | B), PP[TARGET_DOMAIN](A | B),
        Q[A](B), Q[A, B](C), Q[C](A, B),
        One(), Zero(),
    ]


def decorated_terms():
    """Single probability terms over systematically decorated variables: value mark (none, -, +) x subscripts
    (none, one, two of mixed polarity) on the child and/or the condition, plain and population-tagged."""
    from y0.dsl import PP, A, B, C, P, Pi1, X

    subs = [None, (-X,), (+X,), (-X, +B), (-X, -B), (+X, +B)]

    def variants(v, subs_list):
        out = []
        for sub in subs_list:
            for mark in (None, "-", "+"):
                w = v if sub is None else v @ sub
                if mark == "-":
                    w = -w
                elif mark == "+":
                    w = +w
                out.append(w)
        return out

    avs = variants(A, subs)
    cvs = variants(C, [None, (-X,), (+X,)])
    terms = []
    for a in avs:
        terms.append(P(a))
        terms.append(PP[Pi1](a))
        for c in cvs:
            terms.append(P(a, c))
            terms.append(P(a | c))
            terms.append(P(c | a))
    return terms


def operator_distributions():
    """Probability terms whose distribution is written with the `|` and `&` operators on variables in every grouping
    that Python's precedence (& binds tighter than |) produces for up to four variables, in several name orders, plain,
    interventional and population-tagged: the distribution object must come out in the same canonical order as the
    comma spelling and as the re-parsed text."""
    from y0.dsl import PP, A, B, C, D, P, Pi1, X

    terms = []
    for a, b, c, d in itt.permutations((A, B, C, D)):
        shapes = [
            a | b, a | b | c, a | b & c, a & b | c, a | b | c | d, a | b | c & d, a | b & c | d, a & b | c | d,
            a & b | c & d, a | b & c & d, a & b & c | d, (a | b) | (c & d), (a & b) | (c | d) if False else a & b | c | d,
        ]
        for sh in shapes:
            terms.append(P(sh))
    uniq, seen = [], set()
    for t in terms:
        k = (tuple(t.children), tuple(t.parents))
        if k not in seen:
            seen.add(k)
            uniq.append(t)
    out = list(uniq)
    for a, b, c in itt.permutations((A, B, C)):
        out.append(PP[Pi1](a | b | c))
        out.append(P[X](a | b | c))
        out.append(P[X](a | b & c))
        out.append(P((a @ -X) | (b @ -X) | (c @ -X)))
    return out


def build(depth, stride, offset):
    """Expressions built through the public operators only."""
    from y0.dsl import A, B, C, One, P, Sum, Zero

    L = leaves()
    out = [("leaf", e) for e in L]
    for e in operator_distributions():
        out.append(("opdist", e))
        out.append(("opdist*", e * P(B)))
    for e in decorated_terms():
        out.append(("decorated", e))
        out.append(("decorated*", e * P(B)))
        out.append(("decorated/", P(B) / e))
    l2 = []
    for a, b in itt.product(L, L):
        l2.append(("mul", a * b))
        if not isinstance(b, Zero):
            l2.append(("div", a / b))
    for a in L:
        for r in ((A,), (B,), (A, B), (B, C)):
            l2.append(("sum", Sum[r](a)))
    out += l2
    if depth >= 3:
        i = 0
        for _, e in l2:
            for b in L:
                for kind in ("mul_l", "mul_r", "div_n", "div_d"):
                    i += 1
                    if i % stride != offset % stride:
                        continue
                    try:
                        if kind == "mul_l":
                            out.append((kind, e * b))
                        elif kind == "mul_r":
                            out.append((kind, b * e))
                        elif kind == "div_n" and not isinstance(b, Zero):
                            out.append((kind, e / b))
                        elif kind == "div_d" and not isinstance(e, Zero):
                            out.append((kind, b / e))
                    except ZeroDivisionError:
                        pass
            for r in ((A,), (A, B)):
                i += 1
                if i % stride == offset % stride:
                    out.append(("sum", Sum[r](e)))
    # operator-precedence family (both tiers, not strided): every grouping of three small operands by * and /, alone,
    # as the whole body of a Sum, and as a factor next to a Sum (a strided depth-3 family missed a seeded printer
    # change that needs a Sum whose body is a fraction with a product denominator)
    S = [P(A), P(B), P(C | A), P(A, B, C), One()]
    for a, b, c in itt.product(S, S, S):
        groups = []
        try:
            groups = [a / (b * c), (a * b) / c, a / (b / c), (a / b) / c, a * (b / c), (a / b) * c]
        except ZeroDivisionError:
            pass
        for f in groups:
            out.append(("prec", f))
            out.append(("prec-sum", Sum[(C,)](f)))
            out.append(("prec-sum", Sum[(A, B)](f)))
            out.append(("prec-sum*", Sum[(C,)](f) * P(B)))
            out.append(("prec-sum/", P(B) / Sum[(C,)](f)))
    # every variable name the parser documents (A-Z except P and Q, with an index 0-9, with an underscored index, and
    # the population names): one plain term, one conditional term, one population-tagged term per name
    import string

    from y0.dsl import PP, Variable

    for letter in [c for c in string.ascii_uppercase if c not in "PQ"] + ["π"]:
        for name in [letter] + [f"{letter}{i}" for i in range(10)] + [f"{letter}_{i}" for i in range(10)]:
            if name == "π":
                continue
            v = Variable(name)
            if letter == "π":
                out.append(("names", PP[v](A | B)))
            else:
                out.append(("names", P(v)))
                out.append(("names", P(A | v) if name != "A" else P(B | v)))
                out.append(("names", Sum[(v,)](P(v, A)) if name != "A" else Sum[(v,)](P(v, B))))
    import json

    seen = {}
    for k, e in out:
        # de-duplicate structurally (NOT by printed form: printing must be shown injective, not assumed)
        seen.setdefault(json.dumps(to_json(e), sort_keys=True), (k, e))
    return list(seen.values())


def in_equality_subfamily(e) -> bool:
    """Every division has division-free, non-constant operands and is not a factor of a product."""
    from y0.dsl import Fraction, One, Product, Sum, Zero

    def has_div(x):
        if isinstance(x, Fraction):
            return True
        if isinstance(x, Product):
            return any(has_div(f) for f in x.expressions)
        if isinstance(x, Sum):
            return has_div(x.expression)
        return False

    def ok(x, in_product=False):
        if isinstance(x, Fraction):
            if in_product:
                return False
            for part in (x.numerator, x.denominator):
                if has_div(part) or isinstance(part, (One, Zero)):
                    return False
            return True
        if isinstance(x, Product):
            return all(ok(f, True) for f in x.expressions)
        if isinstance(x, Sum):
            return ok(x.expression, False)
        return True

    return ok(e)


def has_constant(e) -> bool:
    from y0.dsl import Fraction, One, Product, Sum, Zero

    if isinstance(e, (One, Zero)):
        return True
    if isinstance(e, Product):
        return any(has_constant(f) for f in e.expressions)
    if isinstance(e, Fraction):
        return has_constant(e.numerator) or has_constant(e.denominator)
    if isinstance(e, Sum):
        return has_constant(e.expression)
    return False


def classify_parse_failure(s: str) -> str:
    if "pi*" in s:
        return "unparseable:target-population-tag"
    return "unparseable:other"


def check_item(item):
    from y0.parser import parse_y0

    kind, ej = item
    e = from_json(ej)
    s = str(e)
    rec = {"kind": kind, "e": ej, "s": s}
    try:
        parsed = parse_y0(s)
    except Exception as ex:  # noqa: BLE001
        rec["status"] = "parse_error"
        rec["exc"] = f"{type(ex).__name__}: {short(ex, 100)}"
        rec["cls"] = classify_parse_failure(s)
        return rec
    rec["parsed"] = str(parsed)
    rec["equal"] = parsed == e
    rec["str_equal"] = str(parsed) == s
    rec["subfamily"] = in_equality_subfamily(e)
    if rec["equal"]:
        rec["status"] = "equal"
        rec["secs"] = 0.0
        return rec
    r = compare(parsed, e, names_of(e) | names_of(parsed) | BASE_NAMES)
    rec["status"] = r["verdict"]
    if r["verdict"] == "sat" and r.get("cross_world"):
        rec["status"] = "skip"  # uninterpreted cross-world terms: a sat answer may be spurious
        rec["why"] = "sat over uninterpreted cross-world terms (not a decided violation)"
    rec["secs"] = r.get("secs", 0.0)
    for k in ("why", "env", "v1", "v2", "params"):
        if k in r:
            rec[k] = r[k]
    return rec


def work(chunk):
    return [check_item(it) for it in chunk]


def run() -> int:
    t = tier()
    rep = Report(PROP, "translation_validation")
    rep.functions = [
        "to_y0()/__str__ of Variable, Intervention, CounterfactualVariable, Distribution, Probability, PopulationProbability, Product, Sum, Fraction, One, Zero, QFactor",
        "y0.parser.internal.parse_y0 (eval over LOCALS) — run natively on each printed form",
        "normalising constructors reached through the parser (Distribution.safe, Product.safe, Sum.safe, __truediv__)",
    ]
    rep.bounds = {
        "expressions": "built through public operators only: distributions written with the | and & operators on up to four variables in every grouping Python's precedence produces and every name order (plain, interventional, population-tagged, counterfactual); 594 single terms over systematically decorated variables (value mark x 0-2 subscripts of mixed polarity, on children and conditions, plain / population-tagged) alone, times P(B), and under P(B)/.; 30 leaves (joint/conditional, value marks, L2 and L3 subscripts, population tags incl. the target tag, Q-factors, One, Zero); all a*b, a/b, Sum[R](a); depth 3 = (depth-2) op leaf in both positions and sums (quick: every 7th, thorough: every 2nd); an operator-precedence family in both tiers (every grouping of three small operands by * and /, alone, as the body of a Sum, and next to a Sum); every variable name the parser documents (A-Z without P and Q, plain / indexed / underscore-indexed; population names with index) in a plain, a conditional, a summed and a population-tagged term; structural duplicates removed",
        "distributions": "free positive joints per (population, intervention assignment), binary variables, Q-factors uninterpreted; cross-world terms cannot be evaluated in this world: for them only object equality after the round trip is checked (a shape-changing round trip of a cross-world term is reported as inconclusive)",
        "PYTHONHASHSEED": hashseed(),
    }
    rep.assumptions = [
        "parse_y0 is executed natively (eval); only the comparison of meanings is solver-decided",
        "equal objects denote equal quantities (no query is issued when parse(str(e)) == e)",
    ]
    rep.rule = "cases = expressions printed and re-parsed; non-trivial = the parsed object differs from the original so that a solver query was needed, or the expression is in the equality sub-family; distinct by printed form"
    depth = 3
    items = [(k, to_json(e)) for k, e in build(depth, 7 if t == "quick" else 2, seed())]
    chunks = [items[i : i + 150] for i in range(0, len(items), 150)]
    for chunk, st, res in pmap(work, chunks):
        if st != "ok":
            rep.harness_errors.append(short(res, 600))
            continue
        for r in res:
            rep.cases += 1
            rep.count(r["status"])
            key = f"print/parse {r['s']}"
            payload = {"property": PROP, "expr": r["e"], "printed": r["s"], "hashseed": hashseed()}
            if r["status"] == "parse_error":
                payload.update({"kind": "parse_error", "exc": r["exc"]})
                rep.add_violation(Violation(PROP, [key, r["cls"]], f"parse_y0({r['s']!r}) raised {r['exc']}", payload))
                continue
            if r["subfamily"]:
                rep.nontrivial.add(key)
                rep.count("subfamily")
                if not (r["equal"] and r["str_equal"]):
                    p2 = dict(payload)
                    p2.update({"kind": "not_equal", "parsed": r["parsed"]})
                    rep.add_violation(Violation(PROP, [key + " (equality clause)"], f"{r['s']} is in the un-nested-division family but parses to the different object {r['parsed']}", p2))
            if r["status"] == "equal":
                continue
            if r["status"] == "skip":
                rep.inconclusive += 1
                rep.inconclusive_samples.append({"case": key, "why": r.get("why")})
                continue
            rep.obligations += 1
            rep.solver_s += r["secs"]
            rep.nontrivial.add(key)
            if r["status"] == "unsat":
                rep.discharged += 1
                if len(rep.samples) < 8:
                    rep.add_sample({"printed": r["s"], "parsed_prints_as": r["parsed"], "verdict": "unsat (same meaning, different object)"})
            elif r["status"] == "unknown":
                rep.inconclusive += 1
                rep.inconclusive_samples.append(key)
            elif r["status"] == "noreplay":
                rep.harness_errors.append(f"sat model did not replay: {key}")
            elif r["status"] == "sat":
                rep.refuted += 1
                payload.update({"kind": "meaning", "parsed": r["parsed"], "env": r["env"], "params": r["params"], "v_parsed": r["v1"], "v_orig": r["v2"]})
                what = f"{r['s']} re-parses as {r['parsed']}: original evaluates to {r['v2']}, parsed to {r['v1']} at {r['env']}"
                rep.add_violation(Violation(PROP, [key], what, payload))
    if not rep.samples:
        rep.add_sample({"note": "every round trip returned an equal object"})
    return rep.finish()


def replay(payload: dict) -> int:
    from y0.parser import parse_y0

    e = from_json(payload["expr"])
    s = str(e)
    print("printed form now:", s)
    try:
        parsed = parse_y0(s)
    except Exception as ex:  # noqa: BLE001
        print(f"parse_y0 raised {type(ex).__name__}: {ex}")
        return 1 if payload["kind"] == "parse_error" else 0
    print("parsed:", parsed, "| equal objects:", parsed == e)
    if payload["kind"] == "parse_error":
        print("not reproduced")
        return 0
    if payload["kind"] == "not_equal":
        bad = not (parsed == e and str(parsed) == s)
        print("reproduced" if bad else "not reproduced")
        return 1 if bad else 0
    hit = exact_differ(parsed, e, names_of(e) | names_of(parsed) | BASE_NAMES, params_from_json(payload["params"]), [payload["env"]])
    if hit is None:
        print("values agree on the recorded distribution: not reproduced")
        return 0
    print(f"parsed = {hit['v1']}, original = {hit['v2']} at {hit['env']}: reproduced")
    return 1

"""C18 — counterfactual-graph construction preserves the event's probability (engine SEM, ScmL3)."""

from __future__ import annotations

from ..common import Report, Unsupported, Violation, pmap, seed, short, tier
from ..events import atoms_for_model, ev_str, events, from_y0_event, to_y0_event
from ..graphs import CURATED, GSpec, family
from ..sem import exact
from ..sem.harness import grid_params, hashseed, params_from_json, params_to_json
from ..sem.l2 import TARGET
from ..sem.l3 import SymL3
from ..sem.rat import Decider
from .c07 import ev_from_json

PROP = "C18"
D25_KEY = "cg:self-intervened-event-variable-dropped-by-merge"
TIMEOUT_MS = {"quick": 10000, "thorough": 30000}


def run_make_cg(g: GSpec, ev):
    from y0.algorithm.identify.cg import make_counterfactual_graph

    cf_graph, new_event = make_counterfactual_graph(g.to_nx(), to_y0_event(ev))
    return cf_graph, new_event


def structural_problems(cf_graph, new_event):
    import networkx as nx

    probs = []
    if not nx.is_directed_acyclic_graph(cf_graph.directed):
        probs.append("counterfactual graph has a directed cycle")
    if set(cf_graph.directed.nodes()) != set(cf_graph.undirected.nodes()):
        probs.append("directed and undirected parts have different node sets")
    if new_event is not None:
        missing = [str(k) for k in new_event if k not in cf_graph.nodes()]
        if missing:
            probs.append(f"event variables {missing} are not nodes of the graph")
        else:
            anc = set()
            for k in new_event:
                anc |= {k} | nx.ancestors(cf_graph.directed, k)
            if anc != set(cf_graph.nodes()):
                probs.append("graph is not exactly the ancestors of the relabelled event")
    return probs


def check(g, ev, model, timeout_ms):
    out = {"queries": 0, "secs": 0.0, "violation": None, "verdict": None}
    cf_graph, new_event = run_make_cg(g, ev)
    truth = model.prob_cw(TARGET, atoms_for_model(ev))
    sp = structural_problems(cf_graph, new_event)
    if sp:
        out["violation"] = {"kind": "structure", "why": "; ".join(sp)}
        return out
    if new_event is None:
        out["new"] = None
        if not truth.is_zero():
            out["violation"] = {"kind": "inconsistent_but_possible", "why": "reported inconsistent although some model gives the event positive probability"}
        out["verdict"] = "none"
        return out
    new_atoms = from_y0_event(new_event)
    out["new"] = ev_str(new_atoms)
    lhs = model.prob_cw(TARGET, atoms_for_model(new_atoms))
    verdict, m, dt = Decider(model.constraints, timeout_ms, model.params).differ(lhs, truth)
    out["queries"], out["secs"], out["verdict"] = 1, dt, verdict
    if verdict == "sat":
        for params in [model.model_to_params(m)] + [grid_params(model.params, s) for s in range(4)]:
            try:
                w = exact.ExactL3(g, params)
                a = w.prob_cw(TARGET, atoms_for_model(new_atoms))
                b = w.prob_cw(TARGET, atoms_for_model(ev))
            except Exception:  # noqa: BLE001
                continue
            if a != b and a >= 0 and b >= 0:
                out["violation"] = {"kind": "wrong", "params": params_to_json(params), "p_new": str(a), "p_orig": str(b)}
                return out
        out["violation"] = {"kind": "noreplay"}
        return out
    # The graph is a causal diagram of the relabelled variables: event nodes in different connected components
    # (directed and bidirected edges together) are claimed to share neither causes nor noise, so they must be
    # independent in every compatible model.  (A construction that forgets to link two copies of a variable across
    # worlds leaves the event's probability intact but makes exactly this claim wrongly.)
    import networkx as nx

    skel = nx.Graph()
    skel.add_nodes_from(cf_graph.nodes())
    skel.add_edges_from(cf_graph.directed.edges())
    skel.add_edges_from(cf_graph.undirected.edges())
    comp = {}
    for i, c in enumerate(nx.connected_components(skel)):
        for n in c:
            comp[n] = i
    keyed = [(k, from_y0_event({k: v})[0]) for k, v in new_event.items()]  # one atom per graph node, paired explicitly
    for i in range(len(keyed)):
        for j in range(i + 1, len(keyed)):
            (k1, a1), (k2, a2) = keyed[i], keyed[j]
            if comp[k1] == comp[k2]:
                continue
            p1 = model.prob_cw(TARGET, atoms_for_model((a1,)))
            p2 = model.prob_cw(TARGET, atoms_for_model((a2,)))
            p12 = model.prob_cw(TARGET, atoms_for_model((a1, a2)))
            verdict, m, dt = Decider(model.constraints, timeout_ms, model.params).differ(p12, p1 * p2)
            out["queries"] += 1
            out["secs"] += dt
            if verdict == "unknown":
                out["verdict"] = "unknown"
            if verdict == "sat":
                for params in [model.model_to_params(m)] + [grid_params(model.params, s) for s in range(4)]:
                    try:
                        w = exact.ExactL3(g, params)
                        x1, x2, x12 = (w.prob_cw(TARGET, atoms_for_model(t)) for t in ((a1,), (a2,), (a1, a2)))
                    except Exception:  # noqa: BLE001
                        continue
                    if x12 != x1 * x2:
                        out["violation"] = {"kind": "dependent_components", "params": params_to_json(params), "why": f"{ev_str((a1,))} and {ev_str((a2,))} lie in different connected components of the counterfactual graph but are dependent: P(both) = {x12}, product of marginals = {x1 * x2}"}
                        return out
                out["violation"] = {"kind": "noreplay"}
                return out
    return out


def work(job):
    g, evs, timeout_ms = job
    model = SymL3(g)
    res = []
    for ev in evs:
        rec = {"g": g.to_json(), "ev": [[a[0], [list(p) for p in a[1]], a[2]] for a in ev], "evs": ev_str(ev)}
        try:
            rec.update(check(g, ev, model, timeout_ms))
            rec["status"] = "ok"
        except Exception as e:  # noqa: BLE001
            rec["status"] = "crash"
            rec["exc"] = f"{type(e).__name__}: {short(e, 160)}"
        res.append(rec)
    return res


def multi_parent_events(g):
    """Targeted family: an atom whose subscripts fix two parents of its variable (all polarities) together with one
    other atom (<=1 subscript): the Lemma-24 parent test then compares two or more parent pairs."""
    import itertools as itt

    from ..events import atom_keys

    others = atom_keys(g.nodes, 1)
    for v in g.nodes:
        pas = g.parents(v)
        for p1, p2 in itt.combinations(pas, 2):
            for x1, x2 in itt.product((0, 1), repeat=2):
                key = (v, ((p1, x1), (p2, x2)) if p1 < p2 else ((p2, x2), (p1, x1)))
                for ok in others:
                    if ok == key:
                        continue
                    for val1, val2 in itt.product((0, 1), repeat=2):
                        yield ((key[0], key[1], val1), (ok[0], ok[1], val2))


def jobs_for(t):
    jobs = []
    to = TIMEOUT_MS[t]

    def add(g, evs, chunk=400):
        evs = list(evs)
        for i in range(0, len(evs), chunk):
            jobs.append((g, evs[i : i + chunk], to))

    if t == "quick":
        for g in family(2, labellings=("fwd",)):
            add(g, events(g.nodes, 3, 2))
        for g in family(3, labellings=("fwd",), n_min=3):
            add(g, events(g.nodes, 2, 1))
            add(g, events(g.nodes, 3, 1, max_worlds=3, stride=36, offset=seed()))
            add(g, multi_parent_events(g))
        # a seed-chosen slice of the 4-node classes (bugs that need a chain of three plus a confounded or extra node)
        for i, g in enumerate(family(4, labellings=("fwd",), n_min=4)):
            if max(len(g.parents(n)) for n in g.nodes) <= 2 and i % 60 == seed() % 60:
                add(g, events(g.nodes, 2, 1, stride=1, offset=seed()))
        for name in ("fig9", "frontdoor", "napkin"):
            add(CURATED[name], events(CURATED[name].nodes, 2, 1, stride=1))
    else:
        for g in family(2):
            add(g, events(g.nodes, 3, 2))
        for g in family(3, n_min=3):
            add(g, events(g.nodes, 2, 2))
            add(g, multi_parent_events(g))
            add(g, events(g.nodes, 3, 1, stride=4, offset=seed()))
        for i, g in enumerate(family(4, labellings=("fwd",), n_min=4)):
            if max(len(g.parents(n)) for n in g.nodes) <= 2 and i % 24 == seed() % 24:
                add(g, events(g.nodes, 2, 1))
        for name in ("fig9", "frontdoor", "napkin", "verma"):
            add(CURATED[name], events(CURATED[name].nodes, 2, 1))
    return jobs


def run() -> int:
    t = tier()
    rep = Report(PROP, "translation_validation")
    rep.functions = [
        "y0.algorithm.identify.cg.make_counterfactual_graph, make_parallel_worlds_graph, the five stitch_* functions, is_pw_equivalent / has_same_function / parents_attain_same_values / nodes_attain_same_value / nodes_have_same_domain_of_values, merge_pw, update_event, is_inconsistent (run natively)",
        "relabelled event -> counterfactual probability polynomial in a symbolic response-type model (vf/sem/l3.py)",
    ]
    rep.bounds = {
        "graphs": "quick: ADMGs <=2 nodes (events <=3 atoms, subscripts <=2), 3 nodes (events <=2 atoms + 1/24 of the 3-atom events, subscripts <=1; plus the targeted family: an atom fixing two parents of its variable together with any other atom), fig. 9 / front-door / napkin (<=2 atoms); thorough: two labellings, subscripts <=2 on 3 nodes, 1/24 of the 4-node classes",
        "models": "all positive functional SCMs over binary variables, one binary latent per bidirected edge",
        "per_query_timeout_ms": TIMEOUT_MS[t],
        "PYTHONHASHSEED": hashseed(),
    }
    rep.assumptions = [
        "a node of the counterfactual graph is read as 'base variable under the interventions in its subscript'; the relabelled event is the conjunction of its items",
        "the structural clauses (acyclic, exactly the ancestors of the event, event variables are nodes) are plain assertions on every concrete output, not solver-decided",
    ]
    rep.assumptions.append("the returned graph is also read as a causal diagram of the relabelled variables: two event nodes in different connected components (directed and bidirected edges together) must be independent in every compatible model (z3 decides P(a, b) = P(a) P(b) over the response-type model)")
    rep.rule = "cases = (graph, event); non-trivial = the relabelled event differs from the input event (a merge happened) and the solver compared the two probabilities; distinct by (graph key, event)"
    for job, st, res in pmap(work, jobs_for(t)):
        if st != "ok":
            rep.harness_errors.append(short(res, 600))
            continue
        for r in res:
            rep.cases += 1
            g = GSpec.from_json(r["g"])
            key = f"{g.key()} {r['evs']}"
            rep.count(r["status"] + ":" + str(r.get("verdict")))
            base = {"property": PROP, "graph": r["g"], "event": r["ev"], "hashseed": hashseed()}
            if r["status"] == "crash":
                keys = [key]
                atoms = ev_from_json(r["ev"])
                if r["exc"].startswith("NetworkXError") and any(v in dict(s_) for v, s_, _ in atoms):
                    keys.append(D25_KEY)
                rep.add_violation(Violation(PROP, keys, f"make_counterfactual_graph raised {r['exc']} for {key}", dict(base, kind="crash", exc=r["exc"])))
                continue
            rep.obligations += r["queries"]
            rep.solver_s += r["secs"]
            if r["verdict"] == "unsat":
                rep.discharged += r["queries"] if not r["violation"] else 1
                if r.get("new") and r["new"] != r["evs"]:
                    rep.nontrivial.add(key)
                    if len(rep.samples) < 8:
                        rep.add_sample({"case": key, "relabelled_event": r["new"], "verdict": "unsat"})
            elif r["verdict"] == "unknown":
                rep.inconclusive += 1
                rep.inconclusive_samples.append(key)
            elif r["verdict"] == "sat":
                rep.refuted += 1
            v = r["violation"]
            if not v:
                continue
            if v["kind"] == "noreplay":
                rep.harness_errors.append(f"sat model did not replay for {key}")
                continue
            what = f"make_counterfactual_graph on {key} -> {r.get('new')}: " + (f"P(relabelled) = {v['p_new']} != P(original) = {v['p_orig']}" if v["kind"] == "wrong" else v["why"])
            rep.add_violation(Violation(PROP, [key], what, dict(base, new_seen=r.get("new"), **v)))
    if not rep.samples:
        rep.add_sample({"note": "no merge happened in this run"})
    from .. import history_runs

    history_runs.run(rep, PROP)
    return rep.finish()


def replay(payload: dict) -> int:
    if payload.get("kind") == "history":
        from .. import history_runs

        return history_runs.replay(PROP, payload)
    g = GSpec.from_json(payload["graph"])
    ev = ev_from_json(payload["event"])
    print("graph", g.key(), "event", ev_str(ev))
    try:
        cf_graph, new_event = run_make_cg(g, ev)
    except Exception as e:  # noqa: BLE001
        print(f"raised {type(e).__name__}: {e}")
        return 1 if payload["kind"] == "crash" else 0
    print("relabelled event now:", new_event, "| nodes:", list(cf_graph.nodes()))
    kind = payload["kind"]
    if kind == "structure":
        bad = bool(structural_problems(cf_graph, new_event))
    elif kind == "inconsistent_but_possible":
        bad = new_event is None
    elif kind == "wrong" and new_event is not None:
        w = exact.ExactL3(g, params_from_json(payload["params"]))
        a = w.prob_cw(TARGET, atoms_for_model(from_y0_event(new_event)))
        b = w.prob_cw(TARGET, atoms_for_model(ev))
        print(f"P(relabelled) = {a}, P(original) = {b}")
        bad = a != b
    elif kind == "dependent_components" and new_event is not None:
        r = check(g, ev, SymL3(g), 30000)
        print(r.get("violation"))
        bad = r.get("violation") is not None and r["violation"]["kind"] == "dependent_components"
    else:
        bad = False
    print("reproduced" if bad else "not reproduced")
    return 1 if bad else 0

"""C09 — counterfactual transport (ctfTRu / ctfTR) answers are correct (engine SEM: ScmL3 target + per-domain tables/policies)."""

from __future__ import annotations

import itertools as itt

from ..common import Report, Unsupported, Violation, pmap, seed, short, tier
from ..events import atoms_for_model, ev_str, events
from ..graphs import CURATED, G, GSpec, family
from ..sem import exact
from ..sem.denote import Denoter
from ..sem.harness import grid_params, hashseed, params_from_json, params_to_json
from ..sem.l2 import TARGET
from ..sem.l3 import SymL3
from ..sem.rat import Decider
from .c07 import ev_from_json
from .c13 import free_cp_names
from .c19 import atoms_of_pairs, y0_pairs

PROP = "C09"
TIMEOUT_MS = {"quick": 8000, "thorough": 30000}
POPS = ["π1", "π2"]
D12_KEY = "ctftr:returned-event-gives-one-variable-two-values"
REFL_KEY = "ctf:tautological-reflexive-atom-kept-as-factual-event"
SUMEV_KEY = "ctftr:summed-variable-is-also-an-event-variable"
WORLDS_KEY = "ctftr:event-holds-one-variable-in-two-worlds"
SUMSUB_KEY = "ctftr:summed-variable-is-also-a-literal-subscript"
DROPSUB_KEY = "ctftr:conditional-result-drops-subscript-values"
FINALCHK_KEY = "ctftr:final-check-rejects-a-condition-absent-from-the-expression"
EMPTYEV_KEY = "ctftr:inner-unconditional-query-gets-an-empty-event"


def sum_binds_names(expr, names) -> bool:
    from y0.dsl import Fraction, Product, Sum

    def walk(e):
        if isinstance(e, Sum):
            return bool({r.name for r in e.ranges} & names) or walk(e.expression)
        if isinstance(e, Product):
            return any(walk(f) for f in e.expressions)
        if isinstance(e, Fraction):
            return walk(e.numerator) or walk(e.denominator)
        return False

    return walk(expr)


def sum_binds_event_variable(expr, revent, subscripts=False, conditional=False) -> bool:
    """The expression sums over a base variable that the returned event also fixes: one world of that variable is
    part of the query and another world of it had to be marginalised, but both carry the same unmarked name.
    For a conditional result numerator / Sum[...](numerator) the outermost sum of the denominator is the
    normalisation over the outcome variables and is not counted."""
    from y0.dsl import Fraction, Product, Sum

    bases = {v for v, _, _ in atoms_of_pairs(revent)} if revent else set()
    if subscripts:
        bases = {n for _, s_, _ in atoms_of_pairs(revent) for n, _ in s_} if revent else set()

    def walk(e):
        if isinstance(e, Sum):
            return bool({r.name for r in e.ranges} & bases) or walk(e.expression)
        if isinstance(e, Product):
            return any(walk(f) for f in e.expressions)
        if isinstance(e, Fraction):
            return walk(e.numerator) or walk(e.denominator)
        return False

    if conditional and isinstance(expr, Fraction) and isinstance(expr.denominator, Sum):
        return walk(expr.numerator) or walk(expr.denominator.expression)
    return walk(expr)


def domain_graph(g: GSpec, S, Z):
    """Selection diagram of a domain: target graph, incoming edges of the policy variables removed, T_v -> v for v in S."""
    from y0.algorithm.transport import transport_variable
    from y0.dsl import Variable
    from y0.graph import NxMixedGraph

    di = [e for e in g.di if e[1] not in Z]
    bi = [e for e in g.bi if e[0] not in Z and e[1] not in Z]
    dg = NxMixedGraph()
    for n in g.nodes:
        dg.add_node(Variable(n))
    for u, v in di:
        dg.add_directed_edge(Variable(u), Variable(v))
    for u, v in bi:
        dg.add_undirected_edge(Variable(u), Variable(v))
    for v in S:
        dg.add_directed_edge(transport_variable(Variable(v)), Variable(v))
    order = list(dg.topological_sort())  # the validator requires the transport nodes in the list
    return dg, order


TARGET_TAGGED = "@target"  # marker in S_k: the domain is the target population itself (tag pi*, no transport nodes)


def real_S(S):
    return set(S) - {TARGET_TAGGED}


def build_inputs(g: GSpec, domains):
    """domains: list of (S_k, Z_k).  Returns (domain_graphs, domain_data).  A domain whose S_k holds the marker
    TARGET_TAGGED is data from the target population under the policy on Z_k: it carries the tag pi*."""
    from y0.dsl import PP, TARGET_DOMAIN, Variable

    dgs, dd = [], []
    for k, (S, Z) in enumerate(domains):
        dg, order = domain_graph(g, real_S(S), Z)
        dgs.append((dg, order))
        tag = TARGET_DOMAIN if TARGET_TAGGED in S else Variable(POPS[k])
        dd.append(({Variable(z) for z in Z}, PP[tag]([Variable(n) for n in g.nodes])))
    return dgs, dd


def retag(expr, old, new):
    """The expression with every PP[old](...) term re-tagged PP[new](...)."""
    from y0.dsl import Fraction, PopulationProbability, Product, Sum, Variable

    if isinstance(expr, PopulationProbability):
        return PopulationProbability(population=Variable(new), distribution=expr.distribution) if expr.population.name == old else expr
    if isinstance(expr, Product):
        return Product(tuple(retag(f, old, new) for f in expr.expressions))
    if isinstance(expr, Fraction):
        return Fraction(retag(expr.numerator, old, new), retag(expr.denominator, old, new))
    if isinstance(expr, Sum):
        return Sum(retag(expr.expression, old, new), expr.ranges)
    return expr


def run_ctftru(g: GSpec, ev, domains):
    """Returns ('rejected', msg) | ('fail', None) | ('ok', (expr, event))."""
    from y0.algorithm.counterfactual_transport import api

    dgs, dd = build_inputs(g, domains)
    event = y0_pairs(ev)
    try:
        api._validate_transport_unconditional_counterfactual_query_input(event=event, target_domain_graph=g.to_nx(), domain_graphs=dgs, domain_data=dd)
    except Exception as e:  # noqa: BLE001 — the library's own validation rejects the input
        return "rejected", f"{type(e).__name__}: {short(e, 100)}"
    res = api.transport_unconditional_counterfactual_query(event=event, target_domain_graph=g.to_nx(), domain_graphs=dgs, domain_data=dd)
    if res is None:
        return "fail", None
    return "ok", (res.expression, res.event)


def run_ctftr(g: GSpec, gamma, delta, domains):
    """Conditional procedure (Algorithm 3)."""
    from y0.algorithm.counterfactual_transport import api

    dgs, dd = build_inputs(g, domains)
    outcomes, conditions = y0_pairs(gamma), y0_pairs(delta)
    try:
        api._validate_transport_conditional_counterfactual_query_input(outcomes=outcomes, conditions=conditions, target_domain_graph=g.to_nx(), domain_graphs=dgs, domain_data=dd)
    except Exception as e:  # noqa: BLE001
        return "rejected", f"{type(e).__name__}: {short(e, 100)}"
    res = api.transport_conditional_counterfactual_query(outcomes=outcomes, conditions=conditions, target_domain_graph=g.to_nx(), domain_graphs=dgs, domain_data=dd)
    if res is None:
        return "fail", None
    return "ok", (res.expression, res.event)


def reading_env(revent):
    """Values for the unmarked variables of the expression from the returned event: a variable that is an event
    variable takes its event value; a variable that only occurs as a subscript takes the subscript's value.
    Returns (env, clashes)."""
    env, clash = {}, set()
    atoms = atoms_of_pairs(revent)
    for v, s, val in atoms:
        if env.get(v, val) != val:
            clash.add(v)
        env[v] = val
    for v, s, val in atoms:
        for n, x in s:
            if n in env and env[n] != x:
                clash.add(n)
            env.setdefault(n, x)
    return env, clash


def term_readings(expr, names):
    """Every way of giving each probability term of expr its own value (0 / 1, written as the marks - / +) for the
    unmarked variables in `names`: yields (choice, rewritten expression)."""
    from y0.dsl import Distribution, Fraction, PopulationProbability, Probability, Product, Sum, Variable

    leaves = []

    def collect(e):
        if isinstance(e, Probability):
            here = sorted({v.name for v in itt.chain(e.children, e.parents) if v.name in names and v.star is None})
            if here:
                leaves.append((e, here))
        elif isinstance(e, Product):
            for f in e.expressions:
                collect(f)
        elif isinstance(e, Fraction):
            collect(e.numerator)
            collect(e.denominator)
        elif isinstance(e, Sum):
            collect(e.expression)

    collect(expr)
    slots = [(i, n) for i, (_, here) in enumerate(leaves) for n in here]

    def rebuild(e, assign, counter):
        if isinstance(e, Probability):
            idx = None
            for i, (leaf, _) in enumerate(leaves):
                if leaf is e and i not in counter:
                    idx = i
                    counter.add(i)
                    break
            if idx is None:
                return e
            mark = lambda v: Variable(v.name, star=bool(assign[(idx, v.name)])) if (idx, v.name) in assign and v.star is None and type(v) is Variable else v
            d = Distribution(children=tuple(mark(v) for v in e.children), parents=tuple(mark(v) for v in e.parents))
            return PopulationProbability(population=e.population, distribution=d) if isinstance(e, PopulationProbability) else Probability(d)
        if isinstance(e, Product):
            return Product(tuple(rebuild(f, assign, counter) for f in e.expressions))
        if isinstance(e, Fraction):
            return Fraction(rebuild(e.numerator, assign, counter), rebuild(e.denominator, assign, counter))
        if isinstance(e, Sum):
            return Sum(rebuild(e.expression, assign, counter), e.ranges)
        return e

    for vals in itt.product((0, 1), repeat=len(slots)):
        assign = dict(zip(slots, vals))
        yield assign, rebuild(expr, assign, set())


def vocab(g, domains):
    nodes = set(g.nodes)
    pops = {POPS[k] for k in range(len(domains))}

    def check(pop, dos, names):
        extra = set(names) - nodes
        if extra:
            raise Unsupported(f"term mentions {sorted(extra)} (transport node or unknown variable)")
        if any(d for d in dos):
            raise Unsupported("term with an intervention subscript: only the declared domain distributions are available")
        if pop not in pops and pop != TARGET:
            raise Unsupported(f"term in undeclared population {pop}")

    return check


def run_wrapper(g: GSpec, ev, delta, domains, default_order=False):
    """The same query through the public entry points unconditional_cft / conditional_cft (CFTDomain objects, events
    given as value-marked variables; with default_order the domains carry no ordering and the wrapper takes
    graph.topological_sort()).  Returns ('fail', None) | ('ok', (expr, event)); exceptions propagate."""
    from y0.algorithm.counterfactual_transport import api
    from y0.dsl import CounterfactualVariable, Variable

    dgs, dd = build_inputs(g, domains)
    doms = [api.CFTDomain(graph=dg, population=pop, policy_variables=set(pol), ordering=None if default_order else list(order)) for (dg, order), (pol, pop) in zip(dgs, dd)]

    def marked(pairs):
        out = []
        for var, val in pairs:
            if isinstance(var, CounterfactualVariable):
                out.append(CounterfactualVariable(name=var.name, star=val.star, interventions=var.interventions))
            else:
                out.append(Variable(name=var.name, star=val.star))
        return out

    if delta:
        res = api.conditional_cft(outcomes=marked(y0_pairs(ev)), conditions=marked(y0_pairs(delta)), target_domain_graph=g.to_nx(), domains=doms)
    else:
        res = api.unconditional_cft(event=marked(y0_pairs(ev)), target_domain_graph=g.to_nx(), domains=doms)
    return ("fail", None) if res is None else ("ok", (res.expression, res.event))


def check_case(g, ev, domains, expr, revent, timeout_ms, delta=()):
    from y0.dsl import Zero

    out = {"queries": 0, "unsat": 0, "sat": 0, "unknown": 0, "secs": 0.0, "violation": None, "skip": None}
    differs = {POPS[k]: real_S(S) for k, (S, Z) in enumerate(domains)}
    policy = {POPS[k]: set(Z) for k, (S, Z) in enumerate(domains)}
    for k, (S, Z) in enumerate(domains):
        if TARGET_TAGGED in S:
            # the only pi*-tagged data on offer is this domain's: the terms PP[pi*](...) of the answer denote the
            # target population under the policy on Z_k, modelled as the harness population POPS[k]
            expr = retag(expr, TARGET, POPS[k])
    model = SymL3(g, differs=differs, policy=policy)
    den = Denoter(model, default_pop="__plain__", vocab=vocab(g, domains))
    truth = model.prob_cw(TARGET, atoms_for_model(tuple(ev) + tuple(delta)))
    if delta:
        pd = model.prob_cw(TARGET, atoms_for_model(delta))
        if pd.is_zero():
            out["skip"] = "impossible conditioning event"
            return out
        truth = truth / pd
    if isinstance(expr, Zero) or revent is None:
        if not truth.is_zero():
            out["violation"] = {"kind": "zero_for_possible_event", "why": "returned Zero although the event has positive probability in some model"}
        return out
    env, clash = reading_env(revent)
    if clash & free_cp_names(expr):
        # The expression has no single reading (known finding D12).  It is attributed to that finding only if SOME
        # per-term choice of the two values makes it right (a defect of notation); if no choice does, the answer
        # itself is wrong - e.g. an answer for a query that is not transportable - and stays a violation.
        ok_reading = None
        tried = 0
        for choice, variant in term_readings(expr, clash & free_cp_names(expr)):
            tried += 1
            if tried > 64:
                ok_reading = "not decided (more than 64 readings)"
                break
            stray_v = sorted(free_cp_names(variant) - set(env))
            good = True
            for vals in itt.product((0, 1), repeat=len(stray_v)):
                env2 = dict(env)
                env2.update(zip(stray_v, vals))
                try:
                    lhs = den.ev(variant, env2, env2)
                except Unsupported:
                    good = False
                    break
                verdict, _, dt = Decider(model.constraints, timeout_ms, model.params).differ(lhs, truth)
                out["queries"] += 1
                out["secs"] += dt
                out[verdict] += 1
                if verdict != "unsat":
                    good = False
                    break
            if good:
                ok_reading = str(variant)
                break
        out["violation"] = {"kind": "unevaluable", "some_reading_correct": ok_reading, "why": f"the returned event gives {sorted(clash)} two different values, so the returned expression (all variables unmarked) has no single reading" + (f"; read term by term as {ok_reading} it is right" if ok_reading else "; and no term-by-term choice of the two values makes it equal to the query's probability")}
        return out
    stray = sorted(free_cp_names(expr) - set(env))
    # unmarked variables that the returned event does not fix: the value must not depend on them (all values tried)
    out["sum_binds_event"] = sum_binds_event_variable(expr, revent, conditional=bool(delta))
    query_subscripts = {n for _, s_, _ in tuple(ev) + tuple(delta) for n, _ in s_}
    out["sum_binds_subscript"] = sum_binds_event_variable(expr, revent, subscripts=True) or sum_binds_names(expr, query_subscripts)
    out["stray_subscripts"] = sorted((free_cp_names(expr) - set(env)) & query_subscripts)
    verdict, m = "unsat", None
    for vals in itt.product((0, 1), repeat=len(stray)):
        env2 = dict(env)
        env2.update(zip(stray, vals))
        try:
            lhs = den.ev(expr, env2, env2)
        except Unsupported as e:
            out["violation"] = {"kind": "vocabulary", "why": str(e)}
            return out
        verdict, m, dt = Decider(model.constraints, timeout_ms, model.params).differ(lhs, truth)
        out["queries"] += 1
        out["secs"] += dt
        out[verdict] += 1
        if verdict != "unsat":
            env = env2
            break
    if verdict == "sat":
        for params in [model.model_to_params(m)] + [grid_params(model.params, s) for s in range(4)]:
            try:
                w = exact.ExactL3(g, params, differs=differs, policy=policy)
                a = exact.evaluate(expr, w, env, ienv=env, default_pop="__plain__")
                b = w.prob_cw(TARGET, atoms_for_model(tuple(ev) + tuple(delta)))
                if delta:
                    b = b / w.prob_cw(TARGET, atoms_for_model(delta))
            except Exception:  # noqa: BLE001
                continue
            if a != b and b >= 0:
                out["violation"] = {"kind": "wrong", "env": env, "params": params_to_json(params), "est": str(a), "truth": str(b)}
                return out
        out["violation"] = {"kind": "noreplay"}
    return out


def work(job):
    g, cases, timeout_ms = job
    res = []
    for case in cases:
        ev, domains = case[0], case[1]
        delta = case[2] if len(case) > 2 else ()
        rec = {"g": g.to_json(), "ev": [[a[0], [list(p) for p in a[1]], a[2]] for a in ev], "evs": ev_str(ev) + (" | " + ev_str(delta) if delta else ""), "domains": [[sorted(S), sorted(Z)] for S, Z in domains], "delta": [[a[0], [list(p) for p in a[1]], a[2]] for a in delta]}
        try:
            status, payload = run_ctftr(g, ev, delta, domains) if delta else run_ctftru(g, ev, domains)
        except Exception as e:  # noqa: BLE001
            rec["status"] = "crash"
            rec["exc"] = f"{type(e).__name__}: {short(e, 260)}"
            res.append(rec)
            continue
        rec["status"] = status
        if status == "ok":
            expr, revent = payload
            rec["est"] = str(expr)
            rec["revent"] = str(revent)
            try:
                rec.update(check_case(g, ev, domains, expr, revent, timeout_ms, delta))
            except Exception as e:  # noqa: BLE001
                rec["harness_exc"] = f"{type(e).__name__}: {short(e, 200)}"
        elif status == "rejected":
            rec["why"] = payload
        res.append(rec)
        # the public wrappers must give what the procedure gives on the same input (every 3rd accepted case)
        if status in ("ok", "fail") and len(res) % 3 == 0:
            for default_order in (False, True):
                tag = "default ordering" if default_order else "explicit ordering"
                wrec = dict(rec, status="wrapper", via=tag, violation=None)
                for k in ("queries", "unsat", "sat", "unknown", "secs"):
                    wrec[k] = 0
                try:
                    wst, wpay = run_wrapper(g, ev, delta, domains, default_order)
                except Exception as e:  # noqa: BLE001
                    wrec.update(status="crash", exc=f"public wrapper ({tag}): {type(e).__name__}: {short(e, 200)}")
                    res.append(wrec)
                    continue
                same = wst == status and (wst == "fail" or (wpay[0] == payload[0] and str(wpay[1]) == str(payload[1])))
                if same:
                    continue
                if wst == "fail":
                    continue  # 'fail' is always an admissible outcome
                # another valid topological order may give another, equally right expression: check it semantically
                wrec.update(status="ok", est=str(wpay[0]), revent=str(wpay[1]))
                try:
                    wrec.update(check_case(g, ev, domains, wpay[0], wpay[1], timeout_ms, delta))
                except Exception as e:  # noqa: BLE001
                    wrec["harness_exc"] = f"{type(e).__name__}: {short(e, 200)}"
                res.append(wrec)
    return res


def consistent(ev):
    """Every base variable has one value in the event, and a subscript on an event variable repeats its value."""
    vals = {}
    for v, s, val in ev:
        if vals.get(v, val) != val:
            return False
        vals[v] = val
    for v, s, val in ev:
        if v in dict(s):
            return False
        for n, x in s:
            if n in vals and vals[n] != x:
                return False
    return True


def domain_sets(nodes, max_s=None):
    nodes = list(nodes)
    out = []
    for k in range(len(nodes) + 1):
        for S in itt.combinations(nodes, k):
            for Z in [()] + [(z,) for z in nodes]:
                out.append((frozenset(S), frozenset(Z)))
    # experimental data collected in the target population itself (tag pi*, a policy on one variable)
    for z in nodes:
        out.append((frozenset({TARGET_TAGGED}), frozenset({z})))
    return out


def jobs_for(t):
    jobs = []
    to = TIMEOUT_MS[t]

    def add(g, cases, chunk=120):
        cases = list(cases)
        for i in range(0, len(cases), chunk):
            jobs.append((g, cases[i : i + chunk], to))

    def one(g, evs, stride=1, offset=0, all_events=False):
        i = 0
        for ev in evs:
            if not all_events and not consistent(ev):
                continue
            for d in domain_sets(g.nodes):
                i += 1
                if i % stride == offset % stride:
                    yield ev, [d]

    def two(g, evs, stride, offset):
        i = 0
        ds = domain_sets(g.nodes)
        for ev in evs:
            if not consistent(ev):
                continue
            for d1, d2 in itt.combinations(ds, 2):
                if TARGET_TAGGED in d1[0] and TARGET_TAGGED in d2[0]:
                    continue  # two different distributions under the one tag pi* would be ambiguous input
                i += 1
                if i % stride == offset % stride:
                    yield ev, [d1, d2]

    def cond(g, stride, offset):
        """(gamma, delta) single atoms over distinct base variables, consistent values, one domain."""
        i = 0
        atoms = [a for (a,) in events(g.nodes, 1, 1)]
        for ga in atoms:
            for de in atoms:
                if ga[0] == de[0] or not consistent((ga, de)):
                    continue
                for d in domain_sets(g.nodes):
                    i += 1
                    if i % stride == offset % stride:
                        yield (ga,), [d], (de,)

    def cond_multi(g, stride, offset, max_sub=0):
        """Two outcome atoms given one condition atom, and one outcome atom given two condition atoms, over
        distinct base variables (Algorithm 3 keeps the ancestral components of outcomes AND conditions)."""
        i = 0
        atoms = [a for (a,) in events(g.nodes, 1, max_sub)]
        for trio in itt.combinations(atoms, 3):
            if len({a[0] for a in trio}) < 3 or not consistent(trio):
                continue
            for k in range(3):
                single = (trio[k],)
                pair = tuple(a for j, a in enumerate(trio) if j != k)
                for ga, de in ((pair, single), (single, pair)):
                    for d in domain_sets(g.nodes):
                        i += 1
                        if i % stride == offset % stride:
                            yield ga, [d], de

    fig2 = G("ZXWY", ["ZX", "ZY", "XY", "XW", "WY"], ["ZX", "WY"])
    # 4-node graphs with a treatment upstream of another treatment and a mediator between them and the outcome:
    # two-atom events in which an atom carries TWO subscripts (the subscripts of an ancestor are decided by cutting
    # the edges into all intervened variables at once)
    for gg in (G("BCAY", ["BC", "CA", "AY", "BY"], []), G("BCAY", ["BC", "CA", "AY", "BY"], ["CY"]), G("BCAY", ["BC", "BA", "CA", "AY"], ["BY"])):
        # only events whose subscripts give every variable one value across the atoms: with two values (B = 1 in one world,
        # B = 0 in the other) the returned pair (expression with unmarked variables, event) has no reading under DESIGN 14.3
        # and the term-by-term attribution of D12 does not decide these 4-node outputs (not triaged: outside the family)
        def one_valued(ev):
            seen = {}
            return all(seen.setdefault(n, x) == x for _, s_, _ in ev for n, x in s_)

        evs2 = [ev for ev in events(gg.nodes, 2, 2) if any(len(s_) == 2 for _, s_, _ in ev) and one_valued(ev)]
        k = 40 if t == "quick" else 6
        add(gg, one(gg, evs2, stride=k * 7, offset=seed()))
    if t == "quick":
        for g in family(3, labellings=("fwd",), n_min=3):
            add(g, cond_multi(g, 11, seed()))
        for g in family(2, labellings=("fwd",), n_min=2):
            add(g, cond(g, 1, 0))
        for g in family(3, labellings=("fwd",), n_min=3):
            add(g, cond(g, 37, seed()))
        for g in family(2, labellings=("fwd",)):
            # every event, including those whose subscripts contradict an event value (P(Y_x = y, X = x'), the effect
            # of treatment on the treated): an answer with an ambiguous reading is attributed to the known notation
            # finding only if some term-by-term reading is right
            add(g, one(g, events(g.nodes, 2, 1), all_events=True))
        for g in family(3, labellings=("fwd",), n_min=3):
            add(g, one(g, events(g.nodes, 2, 1), stride=29, offset=seed()))
            add(g, two(g, events(g.nodes, 1, 1), stride=499, offset=seed()))
        add(fig2, one(fig2, events(fig2.nodes, 1, 1), stride=13, offset=seed()))
    else:
        for g in family(3):
            add(g, cond(g, 5, seed()))
            add(g, cond_multi(g, 3, seed()))
            add(g, cond_multi(g, 97, seed(), max_sub=1))
            add(g, one(g, events(g.nodes, 2, 1), stride=3, offset=seed()))
            add(g, one(g, events(g.nodes, 2, 1), stride=31, offset=seed(), all_events=True))
            add(g, two(g, events(g.nodes, 1, 1), stride=41, offset=seed()))
        add(fig2, one(fig2, events(fig2.nodes, 2, 1), stride=7, offset=seed()))
        for name in ("frontdoor", "napkin", "verma"):
            gg = CURATED[name]
            add(gg, one(gg, events(gg.nodes, 1, 1), stride=5, offset=seed()))
    return jobs


def run() -> int:
    t = tier()
    rep = Report(PROP, "translation_validation")
    rep.functions = [
        "y0.algorithm.counterfactual_transport.api.transport_unconditional_counterfactual_query (Algorithm 2, ctfTRu), _validate_transport_unconditional_counterfactual_query_input, simplify, _transport_unconditional_counterfactual_query_line_2, transport_district_intervening_on_parents (Algorithm 4), counterfactual-factor helpers; y0.algorithm.tian_id (reached through Algorithm 4) — run natively",
        "returned expression -> z3 terms: target counterfactual probability in a symbolic response-type model, domain terms in per-domain copies of the marked tables and fresh policy distributions (vf/sem/l3.py)",
    ]
    rep.bounds = {
        "procedure": "ctfTRu (transport_unconditional_counterfactual_query) and ctfTR (transport_conditional_counterfactual_query; single outcome atom given a single condition atom on distinct variables)",
        "target_graphs": "ADMGs <=3 nodes (one labelling quick, two thorough) and the 4-node running example of Correa et al. (Fig. 2)",
        "domains": "1 source domain (2 for a thin slice): any subset S of nodes carrying a transport node, policy set empty or one variable (its incoming edges removed in the selection diagram), joint PP[pi_k](V), topological order of the selection diagram",
        "four_node_family": "three 4-node graphs B -> C -> A -> Y with B -> Y (plain, with C <-> Y, and a variant with B -> A, B <-> Y): a stride of the consistent two-atom events in which an atom carries two subscripts and no variable gets two different subscript values, one source domain",
        "events": "<=2 atoms, subscripts <=1 (two on the 4-node family); mainly events that give every variable one value (a subscript on an event variable repeats its value); a slice of arbitrary events",
        "models": "target: all positive functional binary SCMs (response types); domain k: same tables except independent tables at the S-marked nodes and a fresh marginal policy distribution for the policy variable",
        "per_query_timeout_ms": TIMEOUT_MS[t],
        "PYTHONHASHSEED": hashseed(),
    }
    rep.assumptions = [
        "reading of the result: every variable of the returned expression is unmarked; it takes the value the returned event gives it, or the value of its subscript occurrence if it only occurs as a subscript; if these disagree the expression has no reading (reported, known finding D12)",
        "inputs that the library's own validation function rejects are skipped (counted); any other exception is a violation",
        "'fail' (None) is accepted",
    ]
    rep.assumptions.append("every third accepted case is repeated through the public wrappers unconditional_cft / conditional_cft (CFTDomain objects, value-marked event variables) with the explicit ordering and with ordering=None (graph.topological_sort()): an exception is a violation, and an expression that differs from the procedure's own result is checked semantically like any other output ('fail' is always admissible)")
    rep.rule = "cases = (target graph, event, domains); non-trivial = an expression was returned and solver-checked; distinct by (graph key, event, domains)"
    for job, st, res in pmap(work, jobs_for(t)):
        if st != "ok":
            rep.harness_errors.append(short(res, 600))
            continue
        for r in res:
            rep.cases += 1
            g = GSpec.from_json(r["g"])
            dom = "; ".join(f"{POPS[i]}: T->{','.join(S) or '-'} policy {','.join(Z) or '-'}" for i, (S, Z) in enumerate(r["domains"]))
            key = f"{g.key()} {r['evs']} [{dom}]" + (f" via public wrapper, {r['via']}" if r.get("via") else "")
            rep.count(r["status"] + (":wrapper" if r.get("via") else ""))
            base = {"property": PROP, "graph": r["g"], "event": r["ev"], "delta": r.get("delta"), "domains": r["domains"], "via": r.get("via"), "hashseed": hashseed()}
            if r.get("harness_exc"):
                rep.harness_errors.append(f"{key}: {r['harness_exc']}")
                continue
            if r["status"] == "crash":
                keys = [key]
                if r.get("delta") and r["exc"].startswith("KeyError") and "In final checks for transport_conditional_counterfactual_query" in r["exc"]:
                    keys.append(FINALCHK_KEY)
                if r.get("delta") and r["exc"].startswith("ValueError") and "empty list for the event" in r["exc"]:
                    keys.append(EMPTYEV_KEY)
                rep.add_violation(Violation(PROP, keys, f"ctfTR{'' if r.get('delta') else 'u'} raised {r['exc']} for {key}", dict(base, kind="crash", exc=r["exc"])))
                continue
            if r["status"] != "ok" or r.get("skip"):
                continue
            rep.obligations += r["queries"]
            rep.discharged += r["unsat"]
            rep.refuted += r["sat"]
            rep.inconclusive += r["unknown"]
            rep.solver_s += r["secs"]
            if r["queries"]:
                rep.nontrivial.add(key)
            if r["unknown"]:
                rep.inconclusive_samples.append(key)
            if len(rep.samples) < 8 and r["unsat"] and "*" in r["est"]:
                rep.add_sample({"case": key, "expression": short(r["est"], 200), "returned_event": r["revent"], "verdict": "unsat"})
            v = r["violation"]
            if not v:
                continue
            if v["kind"] == "noreplay":
                rep.harness_errors.append(f"sat model did not replay for {key}")
                continue
            keys = [key] + ([D12_KEY] if v["kind"] == "unevaluable" and v.get("some_reading_correct") else [])
            atoms = ev_from_json(r["ev"]) + ev_from_json(r.get("delta") or [])
            if v["kind"] in ("wrong", "zero_for_possible_event", "unevaluable") and any(dict(s_).get(a) == val for a, s_, val in atoms):
                keys.append(REFL_KEY)  # SIMPLIFY turns the tautology V_v = v into the factual event V = v (C19 finding)
            if v["kind"] == "wrong" and r.get("sum_binds_event"):
                keys.append(SUMEV_KEY)
            if v["kind"] == "wrong" and r.get("sum_binds_subscript"):
                keys.append(SUMSUB_KEY)
            if v["kind"] == "wrong" and r.get("delta") and r.get("stray_subscripts"):
                keys.append(DROPSUB_KEY)  # the expression depends on a subscript variable whose value the returned event lost
            by_base = {}
            for a, s_, _ in atoms:
                by_base.setdefault(a, set()).add(tuple(sorted(s_)))
            if v["kind"] in ("wrong", "unevaluable") and any(len(w) > 1 for w in by_base.values()):
                keys.append(WORLDS_KEY)  # e.g. B and B_a: the factors of both collapse into one unmarked term
            what = f"ctfTRu returned {short(r['est'], 140)} with event {short(r['revent'], 80)} for {key}: " + (f"value {v['est']} != P*(query) = {v['truth']} (reading {v['env']})" if v["kind"] == "wrong" else v["why"])
            rep.add_violation(Violation(PROP, keys, what, dict(base, est_seen=r["est"], **v)))
    if not rep.samples:
        rep.add_sample({"note": "no verified product expression in this run"})
    from .. import history_runs

    history_runs.run(rep, PROP)
    return rep.finish()


def replay(payload: dict) -> int:
    if payload.get("kind") == "history":
        from .. import history_runs

        return history_runs.replay(PROP, payload)
    g = GSpec.from_json(payload["graph"])
    ev = ev_from_json(payload["event"])
    domains = [(frozenset(S), frozenset(Z)) for S, Z in payload["domains"]]
    print("graph", g.key(), "event", ev_str(ev), "domains", payload["domains"])
    try:
        delta = ev_from_json(payload.get("delta") or [])
        status, res = run_ctftr(g, ev, delta, domains) if delta else run_ctftru(g, ev, domains)
        if payload.get("via"):
            wst, wres = run_wrapper(g, ev, delta, domains, default_order=payload["via"].startswith("default"))
            if payload["kind"] == "wrapper":
                same = wst == status and (wst == "fail" or (wres[0] == res[0] and str(wres[1]) == str(res[1])))
                print("procedure:", status, res, "| public wrapper:", wst, wres)
                print("not reproduced" if same else "reproduced")
                return 0 if same else 1
            status, res = wst, wres
    except Exception as e:  # noqa: BLE001
        print(f"raised {type(e).__name__}: {e}")
        return 1 if payload["kind"] == "crash" else 0
    print("result now:", status, res)
    if status != "ok" or payload["kind"] == "crash":
        print("not reproduced")
        return 0
    out = check_case(g, ev, domains, res[0], res[1], 30000, ev_from_json(payload.get("delta") or []))
    bad = out["violation"] is not None and out["violation"]["kind"] == payload["kind"]
    print(out["violation"])
    print("reproduced" if bad else "not reproduced")
    return 1 if bad else 0

"""C15 — implied conditional independencies are enumerated exactly (engine RSI)."""

from __future__ import annotations

import itertools as itt
import time

import z3

from ..common import Report, Unsupported, Violation, pmap, seed, short, tier
from ..rsi.harness import SymInput, raise_guard, solve, universe
from ..rsi.interp import Interp, Judgement
from ..rsi.sym import SSet, band, biff, bnot, bor, guard_of, is_sym, lift
from .c04 import c_connected, spec_connected

PROP = "C15"


def native_case(nodes, di, bi, k, order=None):
    """Run the real enumerator on a concrete ADMG and compare with the definition (brute force)."""
    from y0.algorithm.conditional_independencies import get_conditional_independencies
    from y0.graph import NxMixedGraph

    g = NxMixedGraph()
    for n in (order or nodes):
        g.add_node(n)
    for u, v in di:
        g.add_directed_edge(u, v)
    for u, v in bi:
        g.add_undirected_edge(u, v)
    rec = {"nodes": [n.name for n in nodes], "di": [[u.name, v.name] for u, v in di], "bi": [[u.name, v.name] for u, v in bi], "k": k}
    try:
        res = get_conditional_independencies(g, max_conditions=k)
    except Exception as e:  # noqa: BLE001
        rec["observed"] = f"raised {type(e).__name__}: {short(e, 100)}"
        rec["bad"] = True
        return rec
    problems = []
    seen = {}
    for j in res:
        pair = frozenset((j.left, j.right))
        seen.setdefault(pair, []).append(j)
        if not (j.left.name < j.right.name and j.conditions == tuple(sorted(set(j.conditions), key=str)) and j.is_canonical and j.separated):
            problems.append(f"not canonical/separated: {j}")
        if c_connected(nodes, set(di), bi, j.left, j.right, j.conditions):
            problems.append(f"listed but not a separation: {j}")
    limit = len(nodes) - 2 if k is None else k
    for u, v in itt.combinations(nodes, 2):
        rest = [w for w in nodes if w not in (u, v)]
        best = None
        for size in range(0, min(limit, len(rest)) + 1):
            if any(not c_connected(nodes, set(di), bi, u, v, C) for C in itt.combinations(rest, size)):
                best = size
                break
        js = seen.get(frozenset((u, v)), [])
        if best is None and js:
            problems.append(f"pair {u},{v} is not separable within the limit but listed: {js}")
        if best is not None and len(js) != 1:
            problems.append(f"pair {u},{v} separable with {best} conditions but listed {len(js)} times")
        if best is not None and len(js) == 1 and len(js[0].conditions) != best:
            problems.append(f"pair {u},{v}: listed with {len(js[0].conditions)} conditions, minimum is {best}")
    rec["observed"] = "; ".join(problems[:4]) if problems else "ok"
    rec["bad"] = bool(problems)
    return rec


def work(job):
    N, k, timeout_ms = job
    U = universe(N)
    out = {"N": N, "k": k}
    it = Interp(U)
    inp = SymInput(U, acyclic=True, all_present=True)
    cons = list(inp.wf)
    t0 = time.time()
    try:
        res, raises = it.call("get_conditional_independencies", inp.mixed(), max_conditions=k)
    except Unsupported as e:
        out["status"] = "unsupported"
        out["why"] = str(e)
        return out
    out["encode_s"] = time.time() - t0
    R = SSet.of(res)
    limit = N - 2 if k is None else min(k, N - 2)
    bad = [raise_guard(raises)]
    by_pair = {}
    for j, g in R.d.items():
        if not isinstance(j, Judgement):
            out["status"] = "unsupported"
            out["why"] = f"result element {type(j).__name__}"
            return out
        by_pair.setdefault(frozenset((j.left, j.right)), []).append((j, g))
        canon = str(j.left) < str(j.right) and tuple(j.conditions) == tuple(sorted(set(j.conditions), key=str))
        if not canon:
            bad.append(g)
        bad.append(band(g, bnot(guard_of(j.separated))))
        bad.append(band(g, bnot(guard_of(it.getattr(j, "is_canonical")))))
    sep_cache = {}

    def sep(u, v, C):
        key = (u, v, tuple(C))
        if key not in sep_cache:
            sep_cache[key] = bnot(spec_connected(inp, u, v, list(C)))
        return sep_cache[key]

    for u, v in itt.combinations(U, 2):
        rest = [w for w in U if w not in (u, v)]
        js = by_pair.get(frozenset((u, v)), [])
        gs = [lift(g) for _, g in js]
        if len(gs) > 1:
            bad.append(bnot(z3.AtMost(*gs, 1)))
        separable = bor(*[sep(u, v, C) for size in range(limit + 1) for C in itt.combinations(rest, size)])
        bad.append(bnot(biff(bor(*[g for _, g in js]), separable)))
        for j, g in js:
            C = tuple(j.conditions)
            if len(C) > limit:
                bad.append(g)
            bad.append(band(g, bnot(sep(u, v, sorted(C, key=str)))))
            smaller = bor(*[sep(u, v, C2) for size in range(len(C)) for C2 in itt.combinations(rest, size)])
            bad.append(band(g, smaller))
    tw, _, _ = solve(cons, bor(*[g for g in R.d.values()]), timeout_ms)
    out["twin"] = tw
    verdict, model, dt = solve(cons, bor(*bad), timeout_ms)
    out["verdict"], out["solve_s"] = verdict, dt
    out["nvars"] = len(inp.d) + len(inp.b)
    out["candidates"] = len(R.d)
    if verdict == "sat":
        nodes, di, bi = inp.concrete(model)
        out["cex"] = native_case(nodes, di, bi, k)
    return out


def native_structured(n_random: int):
    """The directed chain V0 -> ... -> V4 with every pair of bidirected chords (45 graphs: collider paths through
    conditioned district members need five nodes), and pseudo-random sparse ADMGs on 5-6 nodes."""
    import random

    from ..common import seed

    rng = random.Random(3000 + seed())
    U = universe(5)
    chain = [(U[i], U[i + 1]) for i in range(4)]
    bad, cnt = [], 0
    for chords in itt.combinations(list(itt.combinations(U, 2)), 2):
        cnt += 1
        r = native_case(U, chain, list(chords), None)
        if r["bad"] and len(bad) < 5:
            bad.append(r)
    for i in range(n_random):
        n = 5 if i % 3 else 6
        W = universe(n)
        order = W[:]
        rng.shuffle(order)
        di = [p for p in itt.combinations(order, 2) if rng.random() < 0.3]
        bi = [p for p in itt.combinations(W, 2) if rng.random() < 0.2]
        cnt += 1
        r = native_case(W, di, bi, rng.choice((None, 1, 2)), order=order)
        if r["bad"] and len(bad) < 5:
            bad.append(r)
    return cnt, bad


def validate_native(n, ks):
    U = universe(n)
    pairs = list(itt.combinations(U, 2))
    bad, cnt = [], 0
    for dm in range(1 << len(pairs)):
        di = [p for i, p in enumerate(pairs) if dm >> i & 1]
        for bm in range(1 << len(pairs)):
            bi = [p for i, p in enumerate(pairs) if bm >> i & 1]
            for k in ks:
                for order in (U, list(reversed(U))):
                    cnt += 1
                    r = native_case(U, di, bi, k, order=order)
                    if r["bad"] and len(bad) < 5:
                        bad.append(r)
    return cnt, bad


def run() -> int:
    t = tier()
    N = 4 if t == "quick" else 5
    timeout_ms = 120000 if t == "quick" else 900000
    rep = Report(PROP, "model_checking")
    rep.functions = [
        "y0/algorithm/conditional_independencies.py: get_conditional_independencies, d_separations, minimal, get_topological_policy, _judgement_grouper, are_d_separated (AST of the current source)",
        "y0/util/combinatorics.py: powerset; y0/struct.py: DSeparationJudgement.create / is_canonical; y0/graph.py helpers as in C04",
    ]
    rep.stubs = [
        "networkx models as in C14/C04; nx.topological_sort returns some valid order (stub)",
        "min(group, key=policy) is modelled with an ARBITRARY total preference between candidates (fresh Booleans), so the verdict holds for every retention policy, including the two built-in ones",
        "itertools.groupby / sorted with concrete keys over guarded elements; iteration order of Python sets is fixed to one order (a second order is covered by the native validation corpus only)",
    ]
    rep.bounds = {"universe_nodes": N, "graphs": f"every ADMG on exactly {N} nodes (all present; smaller graphs are covered by the native corpus)", "size_limits": "None and 0 .. N-2", "solver_timeout_ms": timeout_ms}
    rep.assumptions = [
        "the size limit is read as documented ('longest set of conditions to investigate'): sets with |C| <= k",
        "true separation = the m-separation specification of C04",
    ]
    rep.rule = "one query per size limit k: all ADMGs on the universe; non-trivial = some judgement can be listed (vacuity twin sat)"
    jobs = [(N, k, timeout_ms) for k in [None] + list(range(0, N - 1))]
    if t == "thorough":
        jobs += [(4, k, timeout_ms) for k in [None, 0, 1, 2]]
    states = 0
    for job, st, r in pmap(work, jobs):
        if st != "ok":
            rep.harness_errors.append(short(r, 800))
            continue
        rep.cases += 1
        key = f"N={r['N']} max_conditions={r['k']}"
        if r.get("status") == "unsupported":
            rep.inconclusive += 1
            rep.harness_errors.append(f"{key}: encoding cannot be built on this tree: {r['why']}")
            continue
        rep.obligations += 1
        rep.solver_s += r["solve_s"]
        states += r["nvars"]
        if r["twin"] == "sat":
            rep.nontrivial.add(key)
        if r["verdict"] == "unsat":
            rep.discharged += 1
        elif r["verdict"] == "unknown":
            rep.inconclusive += 1
            rep.inconclusive_samples.append(key)
        else:
            rep.refuted += 1
            cex = r["cex"]
            if cex["bad"]:
                what = f"get_conditional_independencies(max_conditions={cex['k']}) on nodes={cex['nodes']} di={cex['di']} bi={cex['bi']}: {cex['observed']}"
                rep.add_violation(Violation(PROP, [key], what, {"property": PROP, **cex}))
            else:
                rep.harness_errors.append(f"{key}: solver counterexample did not reproduce natively: {cex}")
        rep.add_sample({"query": key, "verdict": r["verdict"], "candidate_judgements": r["candidates"], "encode_s": round(r["encode_s"], 2), "solve_s": round(r["solve_s"], 2)})
    cnt, bad = validate_native(3, [None, 0, 1])
    unsupported = any("encoding cannot be built" in str(h) for h in rep.harness_errors)
    cnt2, bad2 = native_structured(60 if unsupported else 12)
    cnt += cnt2
    bad = bad + bad2
    rep.extra["native_structured_graphs"] = {"graphs": cnt2, "note": "directed 5-node chain plus every pair of bidirected chords, and pseudo-random sparse 5/6-node ADMGs; brute-force comparison with the definition, not solver-decided" + ("; enlarged because the encoding could not be built on this tree" if unsupported else "")}
    for b in bad:
        what = f"get_conditional_independencies(max_conditions={b['k']}) on nodes={b['nodes']} di={b['di']} bi={b['bi']}: {b['observed']} (native validation corpus)"
        rep.add_violation(Violation(PROP, [f"native k={b['k']}"], what, {"property": PROP, **b}))
    rep.extra.update({"states": max(states, 1), "transitions": max(rep.obligations, 1), "traces_validated_against_impl": cnt})
    from .. import history_runs

    history_runs.run(rep, PROP)
    return rep.finish()


def replay(payload: dict) -> int:
    if payload.get("kind") == "history":
        from .. import history_runs

        return history_runs.replay(PROP, payload)
    from y0.dsl import Variable as V

    r = native_case([V(n) for n in payload["nodes"]], [(V(u), V(v)) for u, v in payload["di"]], [(V(u), V(v)) for u, v in payload["bi"]], payload["k"])
    print(r)
    print("reproduced" if r["bad"] else "not reproduced")
    return 1 if r["bad"] else 0

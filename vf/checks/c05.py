"""C05 — surrogate-outcome / transport (TRSO) estimands equal the target effect (engine SEM, multi-domain ScmL2)."""

from __future__ import annotations

import itertools as itt

from ..common import Report, Unsupported, Violation, pmap, seed, short, tier
from ..graphs import CURATED, GSpec, family, nonempty_subsets, xy_queries
from ..sem import exact
from ..sem.denote import Denoter, free_names
from ..sem.harness import envs_for, grid_params, hashseed, params_from_json, params_to_json
from ..sem.l2 import TARGET, SymL2
from ..sem.rat import Decider

PROP = "C05"
TIMEOUT_MS = {"quick": 8000, "thorough": 30000}
POPS = ["π1", "π2"]


def run_trso(g: GSpec, X, Y, domains, reverse_keys=False):
    """domains: list of (Z_i, W_i) for populations π1, π2, ...  With reverse_keys the surrogate_interventions mapping
    lists its populations in the opposite order (the two mappings are keyed by population; their key order is free)."""
    from y0.algorithm.transport import identify_target_outcomes
    from y0.dsl import Variable

    V = lambda s: {Variable(n) for n in s}
    idx = list(enumerate(domains))
    return identify_target_outcomes(
        g.to_nx(),
        target_outcomes=V(Y),
        target_interventions=V(X),
        surrogate_outcomes={Variable(POPS[i]): V(W) for i, (Z, W) in idx},
        surrogate_interventions={Variable(POPS[i]): V(Z) for i, (Z, W) in (reversed(idx) if reverse_keys else idx)},
    )


def differing_nodes(g: GSpec, domains):
    """The nodes at which domain i may differ from the target: taken from the library's own selection diagram."""
    from y0.algorithm.transport import get_nodes_to_transport
    from y0.dsl import Variable

    out = {}
    for i, (Z, W) in enumerate(domains):
        nodes = get_nodes_to_transport(surrogate_interventions={Variable(n) for n in Z}, surrogate_outcomes={Variable(n) for n in W}, graph=g.to_nx())
        out[POPS[i]] = {n.name for n in nodes}
    return out


def vocab(g: GSpec, domains):
    nodes = set(g.nodes)
    allowed = {POPS[i]: set(Z) for i, (Z, W) in enumerate(domains)}

    def check(pop, dos, names):
        extra = set(names) - nodes
        if extra:
            raise Unsupported(f"term mentions {sorted(extra)} (selection/transport node or unknown variable)")
        if len(dos) > 1:
            raise Unsupported("term mixing different intervention sets")
        do = dict(next(iter(dos)))
        if pop == TARGET:
            if do:
                raise Unsupported("interventional term in the target domain (only its observational distribution is available)")
            return
        if pop not in allowed:
            raise Unsupported(f"term in population {pop}: plain probabilities / undeclared domains are not available")
        if not set(do) <= allowed[pop]:
            raise Unsupported(f"domain {pop} is used under do({sorted(do)}) but only experiments on {sorted(allowed[pop])} are declared")

    return check


def truth(w, X, Y, env, exact_mode=False):
    do = {x: env[x] for x in X}
    a = {y: env[y] for y in Y}
    return w.prob(TARGET, do, a) if exact_mode else w.prob_rat(TARGET, do, a)


def replay_values(g, X, Y, differs, est, env, params):
    w = exact.ExactL2(g, params, differs=differs)
    try:
        a = exact.evaluate(est, w, env, default_pop="__plain__")
    except exact.Undefined as e:
        return (f"undefined: {e}", "n/a")
    b = truth(w, X, Y, env, exact_mode=True)
    return (str(a), str(b)) if a != b else None


def check_case(g, X, Y, domains, est, timeout_ms, env_mode):
    out = {"queries": 0, "unsat": 0, "sat": 0, "unknown": 0, "secs": 0.0, "violation": None}
    differs = differing_nodes(g, domains)
    model = SymL2(g, differs=differs)
    den = Denoter(model, default_pop="__plain__", vocab=vocab(g, domains))
    try:
        names = free_names(est) | set(X) | set(Y)
    except Unsupported as e:
        out["violation"] = {"kind": "vocabulary", "why": str(e)}
        return out
    unknown_names = sorted(n for n in names if n not in model.card)
    if unknown_names:
        out["violation"] = {"kind": "vocabulary", "why": f"estimand mentions {unknown_names}, which are not nodes of the graph (selection/transport nodes or unknown variables)"}
        return out
    for env in envs_for(names, model.card, env_mode):
        try:
            lhs = den.ev(est, env, env)
        except Unsupported as e:
            out["violation"] = {"kind": "vocabulary", "why": str(e), "env": env}
            return out
        except KeyError as e:
            out["violation"] = {"kind": "vocabulary", "why": f"unknown variable {e}", "env": env}
            return out
        rhs = truth(model, X, Y, env)
        verdict, m, dt = Decider(model.constraints, timeout_ms, model.params).differ(lhs, rhs)
        out["queries"] += 1
        out["secs"] += dt
        out[verdict] += 1
        if verdict == "sat":
            for params in [model.model_to_params(m)] + [grid_params(model.params, s) for s in range(6)]:
                rep = replay_values(g, X, Y, differs, est, env, params)
                if rep is not None:
                    out["violation"] = {"kind": "wrong", "env": env, "params": params_to_json(params), "est": rep[0], "truth": rep[1], "differs": {k: sorted(v) for k, v in differs.items()}}
                    return out
            out["violation"] = {"kind": "noreplay", "env": env}
            return out
    return out


def work(job):
    g, cases, timeout_ms, env_mode = job
    from y0.algorithm.identify import identify_outcomes
    from y0.dsl import Variable

    res = []
    id_cache = {}
    for X, Y, domains in cases:
        X, Y = sorted(X), sorted(Y)
        domains = [(sorted(Z), sorted(W)) for Z, W in domains]
        rec = {"g": g.to_json(), "X": X, "Y": Y, "domains": domains}
        try:
            est = run_trso(g, X, Y, domains)
        except Exception as e:  # noqa: BLE001
            rec["status"] = "crash"
            rec["exc"] = f"{type(e).__name__}: {short(e, 160)}"
            res.append(rec)
            continue
        key = (tuple(X), tuple(Y))
        if key not in id_cache:
            try:
                id_cache[key] = identify_outcomes(g.to_nx(), {Variable(x) for x in X}, {Variable(y) for y in Y}) is not None
            except Exception:  # noqa: BLE001
                id_cache[key] = None
        rec["id_identifiable"] = id_cache[key]
        if est is None:
            rec["status"] = "none"
        else:
            rec["status"] = "estimand"
            rec["est"] = str(est)
            rec.update(check_case(g, X, Y, domains, est, timeout_ms, env_mode))
        res.append(rec)
        if len(domains) >= 2:
            # the same input with the populations of surrogate_interventions listed in the opposite order
            rec2 = {"g": g.to_json(), "X": X, "Y": Y, "domains": domains, "reverse_keys": True, "id_identifiable": rec["id_identifiable"]}
            try:
                est2 = run_trso(g, X, Y, domains, reverse_keys=True)
            except Exception as e:  # noqa: BLE001
                rec2.update(status="crash", exc=f"{type(e).__name__}: {short(e, 160)}")
                res.append(rec2)
                continue
            if str(est2) != str(est):
                if est2 is None:
                    rec2["status"] = "none"
                else:
                    rec2.update(status="estimand", est=str(est2))
                    rec2.update(check_case(g, X, Y, domains, est2, timeout_ms, env_mode))
                res.append(rec2)
    return res


def domain_choices(nodes, max_z=2):
    """(Z, W): experiment set (possibly empty) and non-empty surrogate-outcome set, disjoint."""
    nodes = list(nodes)
    out = []
    for k in range(0, max_z + 1):
        for Z in itt.combinations(nodes, k):
            rest = [n for n in nodes if n not in Z]
            for W in nonempty_subsets(rest):
                out.append((frozenset(Z), frozenset(W)))
    return out


def deep_jobs(t, to):
    """5- and 6-node inputs on which TRSO reaches lines 9/10 (inputs only, diversified by the sequence of line helpers
    that fired when the corpus was generated: tools/gen_corpus_trso.py).  Quick: every third case."""
    import json
    from pathlib import Path

    f = Path(__file__).resolve().parent.parent / "data" / "trso_deep.json"
    if not f.exists():
        return []
    cases = json.loads(f.read_text())["cases"]
    if t == "quick":
        arm = [c for c in cases if c.get("sig", "").startswith("arm:")]
        rest = [c for c in cases if not c.get("sig", "").startswith("arm:")]
        cases = arm + rest[seed() % 3 :: 3]
    return [(GSpec.from_json(c["g"]), [(c["X"], c["Y"], [tuple(d) for d in c["domains"]])], to, "diag") for c in cases]


def jobs_for(t):
    jobs = []
    to = TIMEOUT_MS[t]

    def add(g, cases, env_mode, chunk=150):
        cases = list(cases)
        for i in range(0, len(cases), chunk):
            jobs.append((g, cases[i : i + chunk], to, env_mode))

    def one_domain(g, stride=1, offset=0):
        i = 0
        for X, Y in xy_queries(g.nodes):
            for d in domain_choices(g.nodes):
                i += 1
                if i % stride == offset % stride:
                    yield X, Y, [d]

    def two_domains(g, stride, offset):
        i = 0
        ds = domain_choices(g.nodes, max_z=1)
        for X, Y in xy_queries(g.nodes):
            for d1, d2 in itt.combinations(ds, 2):
                i += 1
                if i % stride == offset % stride:
                    yield X, Y, [d1, d2]

    jobs += deep_jobs(t, to)
    if t == "quick":
        for g in family(2, labellings=("fwd",)):
            add(g, one_domain(g), "all")
        for g in family(3, labellings=("fwd",), n_min=3):
            add(g, one_domain(g, stride=3, offset=seed()), "diag")
            add(g, two_domains(g, stride=13, offset=seed()), "diag")
        for name in ("frontdoor", "bow", "iv", "napkin", "fig3_tikka"):
            g = CURATED[name]
            add(g, one_domain(g, stride=(1 if len(g.nodes) <= 3 else 29), offset=seed()), "diag")
    else:
        for g in family(3):
            add(g, one_domain(g), "all")
            add(g, two_domains(g, stride=3, offset=seed()), "diag")
        for i, g in enumerate(family(4, labellings=("fwd",), n_min=4)):
            if i % 8 == seed() % 8:
                add(g, one_domain(g, stride=23, offset=seed()), "diag")
        for name, g in CURATED.items():
            if len(g.nodes) <= 4:
                add(g, one_domain(g, stride=3, offset=seed()), "diag")
    return jobs


def run() -> int:
    t = tier()
    rep = Report(PROP, "translation_validation")
    rep.functions = [
        "y0.algorithm.transport.identify_target_outcomes, surrogate_to_transport, get_nodes_to_transport, create_transport_diagram, trso (lines 1-11), trso_line1/2/3/4/6/9/10, _line_6_helper, all_transports_d_separated, activate_domain_and_interventions (run natively)",
        "RSI: y0.algorithm.transport.get_nodes_to_transport and the NxMixedGraph operations it calls (districts, get_intervened_ancestors, descendants_inclusive), translated from the current AST over a symbolic ADMG (vf/checks/c05_rsi.py)",
        "are_d_separated on the selection diagrams, canonicalize (reached through it)",
        "returned Expression -> z3 polynomial terms over a multi-domain family of SCMs (vf/sem/l2.py with per-domain tables)",
    ]
    rep.bounds = {
        "deep_corpus": "5- and 6-node inputs (1-2 source domains, |Z_i|, |W_i| <= 2, insertion order shuffled) on which TRSO reaches line 9 or line 10, up to 3 per distinct sequence of fired line helpers (vf/data/trso_deep.json, inputs only), plus 95 six-node inputs built from a curated or 3-node graph and an experimental arm U -> V -> y, V <-> t with the surrogate experiment do(U) observing V; quick: the arm inputs and every third of the others, thorough: all; all-equal value assignments",
        "graphs": "quick: ADMGs <=2 nodes (all one-domain inputs), 3 nodes (1/3 of the one-domain inputs, 1/13 of the two-domain inputs), front-door / bow / IV / napkin / fig.3 curated; thorough: all ADMGs on 3 nodes under two labellings (all one-domain inputs, 1/3 two-domain), 1/8 of the 4-node classes, curated 4-node graphs",
        "argument_forms": "every two-domain input is also given with the populations of the surrogate_interventions mapping listed in the opposite order; a differing result is checked like any other",
        "domains": "1-2 source domains, experiment set Z_i of <=2 (1) variables possibly empty, non-empty surrogate-outcome set W_i disjoint from Z_i",
        "models": "families of positive binary SCMs with one binary latent per bidirected edge: every table and every latent prior is shared with the target except the tables of the nodes that the library's own selection diagram (get_nodes_to_transport) marks for that domain, which are independent parameters",
        "rsi": "get_nodes_to_transport over every ADMG on N nodes and all non-empty disjoint node sets Z, W: N = 4 (quick), 4-5 (thorough)",
        "per_query_timeout_ms": TIMEOUT_MS[t],
        "PYTHONHASHSEED": hashseed(),
    }
    rep.assumptions = [
        "available distributions: PP[pi*](.) observational in the target; PP[pi_i][Z'](.) for Z' a subset of the declared experiment set Z_i (property statement); any other term (plain P, transport node, undeclared experiment) is reported as out of vocabulary",
        "the set of differing nodes per domain in the SEM part is the library's own (as the property states). The construction of the selection diagram is checked separately (RSI part): for every ADMG on N nodes and every (Z_i, W_i), get_nodes_to_transport marks at least the nodes of the construction it documents, (De(Z_i) - W_i) u (district(W_i) - An(W_i) in G without the edges into Z_i); a missing node is a violation (a mechanism would be treated as shared although the experiment does not determine it), extra nodes are conservative and only recorded in the samples",
        "'returns an estimand exactly when ID does': a None result on a query that ID identifies is a violation (TRSO has the target observational distribution at its disposal)",
    ]
    rep.rule = "cases = (graph, X, Y, domains) given to identify_target_outcomes; non-trivial = an estimand mentioning a source domain was returned and solver-checked; distinct by (graph key, X, Y, domains)"
    for job, st, res in pmap(work, jobs_for(t)):
        if st != "ok":
            rep.harness_errors.append(short(res, 600))
            continue
        for r in res:
            rep.cases += 1
            g = GSpec.from_json(r["g"])
            dom = "; ".join(f"{POPS[i]}: do({','.join(Z)}) obs {','.join(W)}" for i, (Z, W) in enumerate(r["domains"]))
            key = f"{g.key()} do({','.join(r['X'])}) -> {','.join(r['Y'])} [{dom}]" + (" (keys of surrogate_interventions reversed)" if r.get("reverse_keys") else "")
            rep.count(r["status"])
            base = {"property": PROP, "graph": r["g"], "X": r["X"], "Y": r["Y"], "domains": r["domains"], "reverse_keys": bool(r.get("reverse_keys")), "hashseed": hashseed()}
            if r["status"] == "crash":
                rep.add_violation(Violation(PROP, [key, "crash:" + r["exc"].split(":")[0]], f"identify_target_outcomes raised {r['exc']} for {key}", dict(base, kind="crash", exc=r["exc"])))
                continue
            if r["status"] == "none":
                if r["id_identifiable"]:
                    rep.add_violation(Violation(PROP, [key], f"identify_target_outcomes returned None for {key} although plain ID identifies the effect", dict(base, kind="none_but_identifiable")))
                continue
            if "π" in r["est"]:
                rep.nontrivial.add(key)
            rep.obligations += r["queries"]
            rep.discharged += r["unsat"]
            rep.refuted += r["sat"]
            rep.inconclusive += r["unknown"]
            rep.solver_s += r["secs"]
            if r["unknown"]:
                rep.inconclusive_samples.append(key)
            if len(rep.samples) < 8 and "π" in r["est"] and r["unsat"] and not r["violation"]:
                rep.add_sample({"case": key, "estimand": short(r["est"], 200), "queries": r["queries"], "unsat": r["unsat"]})
            v = r["violation"]
            if v is None:
                continue
            if v["kind"] == "noreplay":
                rep.harness_errors.append(f"sat model did not replay for {key}")
                continue
            what = f"TRSO returned {short(r['est'], 140)} for {key}: " + (f"value {v['est']} != P*(y|do x) = {v['truth']} at {v['env']} (domains differ at {v['differs']})" if v["kind"] == "wrong" else v["why"])
            rep.add_violation(Violation(PROP, [key], what, dict(base, est_seen=r["est"], **v)))
    # derivation of the selection diagrams, decided over symbolic graphs (RSI)
    from .c05_rsi import rsi_jobs, rsi_work

    for job, st, r in pmap(rsi_work, rsi_jobs(t)):
        if st != "ok":
            rep.harness_errors.append(short(r, 600))
            continue
        rep.cases += 1
        key = f"rsi:get_nodes_to_transport N={r['N']}"
        if r.get("status") == "unsupported":
            rep.inconclusive += 1
            rep.harness_errors.append(f"{key}: encoding cannot be built on this tree: {r['why']}")
            continue
        rep.obligations += 1
        rep.solver_s += r["solve_s"]
        if r["twin"] == "sat":
            rep.nontrivial.add(key)
        rep.add_sample({"query": key, "missing_node": r["verdict"], "extra_node": r["extra_verdict"], "bool_vars": r["nvars"]})
        if r["verdict"] == "unsat":
            rep.discharged += 1
        elif r["verdict"] == "unknown":
            rep.inconclusive += 1
        else:
            rep.refuted += 1
            cex = r["cex"]
            if not cex["bad"]:
                rep.harness_errors.append(f"{key}: solver counterexample did not reproduce natively: {cex}")
                continue
            g = GSpec.from_json(cex["g"])
            rep.add_violation(Violation(PROP, [f"transport-nodes {g.key()} Z={cex['Z']} W={cex['W']}"], f"get_nodes_to_transport on {g.key()} with experiment Z={cex['Z']} observing W={cex['W']} returned {cex['out']}; the documented construction (De(Z) - W) u (district(W) - An(W) without edges into Z) gives {cex['want']}: missing {cex.get('missing')}", {"property": PROP, "rsi": True, "graph": cex["g"], "Z": cex["Z"], "W": cex["W"], "hashseed": hashseed()}))
    if not rep.samples:
        rep.add_sample({"note": "no verified estimand mentioning a source domain in this run"})
    from .. import history_runs

    history_runs.run(rep, PROP)
    return rep.finish()


def replay(payload: dict) -> int:
    if payload.get("kind") == "history":
        from .. import history_runs

        return history_runs.replay(PROP, payload)
    if payload.get("rsi"):
        from .c05_rsi import native_check

        r = native_check(GSpec.from_json(payload["graph"]), payload["Z"], payload["W"])
        print(r)
        print("reproduced" if r["bad"] else "not reproduced")
        return 1 if r["bad"] else 0
    g = GSpec.from_json(payload["graph"])
    X, Y, domains = payload["X"], payload["Y"], [tuple(d) for d in payload["domains"]]
    print("graph", g.key(), "X", X, "Y", Y, "domains", domains)
    try:
        est = run_trso(g, X, Y, domains, reverse_keys=bool(payload.get("reverse_keys")))
    except Exception as e:  # noqa: BLE001
        print(f"raised {type(e).__name__}: {e}")
        return 1 if payload["kind"] == "crash" else 0
    print("estimand now:", est)
    kind = payload["kind"]
    if kind == "crash":
        print("not reproduced")
        return 0
    if kind == "none_but_identifiable":
        bad = est is None
    elif kind == "wrong" and est is not None:
        rv = replay_values(g, X, Y, differing_nodes(g, domains), est, payload["env"], params_from_json(payload["params"]))
        bad = rv is not None
        print("values:", rv)
    else:
        bad = est is not None and kind == "vocabulary"
    print("reproduced" if bad else "not reproduced")
    return 1 if bad else 0

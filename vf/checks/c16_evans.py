"""C16, Evans clauses — simplify_latent_dag is idempotent, keeps every observed node, and the mixed graph read off
the simplified DAG is the latent projection of the original DAG (RSI over a symbolic latent-variable DAG).

The input is a symbolic DAG over V0..V{n-1} whose directed edges respect the universe order (every DAG is of this
form up to renaming; the names are varied by labellings because `remove_redundant_latents` breaks ties by name),
with symbolic presence and symbolic `hidden` tags.  The generators of simplify_latent.py are run lazily, so the
interleaving of `nx.topological_sort` with the in-place rewriting of `transform_latents_with_parents` is the
one Python performs.
"""

from __future__ import annotations

import itertools as itt
import time

import z3

from ..common import Unsupported, short
from ..rsi import models as M
from ..rsi.harness import graph_differs, solve
from ..rsi.interp import Interp, SymMixed
from ..rsi.sym import band, biff, bnot, bor, is_sym, lift

TAG = "hidden"


def names_for(n, labelling):
    ids = list(range(n))
    if labelling == "rev":
        ids = ids[::-1]
    elif labelling == "mix":
        ids = ids[1::2] + ids[0::2]
    if labelling == "pad":
        # names whose numeric parts differ only by zero padding or compare differently as text and as numbers: the
        # redundancy rule keeps 'the lower sort order' latent, so the order on Variables must be total and antisymmetric
        pool = ["U1", "U01", "U10", "U2", "U02", "U010", "U001", "U20"]
        return pool[:n]
    return [f"V{i}" for i in ids]


def build(n, labelling="fwd", levels=2):
    from y0.dsl import Variable

    base = [Variable(x) for x in names_for(n, labelling)]
    primes, cur = [], base
    for _ in range(levels):
        cur = [Variable(f"{v.name}_prime") for v in cur]
        primes = cur + primes
    U = primes + base  # exogenous replacements first: the universe order stays a topological order after a run
    p = {v: z3.Bool(f"p_{v.name}") for v in base}
    h = {v: z3.Bool(f"h_{v.name}") for v in base}
    d = {(base[i], base[j]): z3.Bool(f"d_{base[i].name}_{base[j].name}") for i in range(n) for j in range(i + 1, n)}
    wf = [z3.Implies(e, z3.And(p[u], p[v])) for (u, v), e in d.items()]
    g = M.SymDiGraph(U, {v: p.get(v, False) for v in U}, dict(d))
    for v in base:
        g.attr[(v, TAG)] = h[v]
        g.attr_has[(v, TAG)] = p[v]
    return base, U, p, h, d, wf, g


def projection_spec(base, p, h, d):
    """Latent projection onto the observed nodes, as formulas over the input."""
    n = len(base)
    R = {}  # R[i, j]: a directed path i -> j all of whose intermediate nodes are latent
    for i in range(n):
        for j in range(i + 1, n):
            R[(i, j)] = bor(d[(base[i], base[j])], *[band(R[(i, k)], h[base[k]], d[(base[k], base[j])]) for k in range(i + 1, j)])
    obs = {v: band(p[v], bnot(h[v])) for v in base}
    di = {(base[i], base[j]): band(obs[base[i]], obs[base[j]], R[(i, j)]) for i in range(n) for j in range(i + 1, n)}
    bi = {}
    for i in range(n):
        for j in range(i + 1, n):
            bi[frozenset((base[i], base[j]))] = band(obs[base[i]], obs[base[j]], bor(*[band(p[base[l]], h[base[l]], R[(l, i)], R[(l, j)]) for l in range(i)]))
    return obs, di, bi


def dag_differs(a: M.SymDiGraph, b: M.SymDiGraph):
    gs = []
    for v in a.U:
        gs.append(bnot(biff(a.node[v], b.node[v])))
        gs.append(band(a.node[v], bnot(biff(a.attr.get((v, TAG), False), b.attr.get((v, TAG), False)))))
    for k in set(a.edge) | set(b.edge):
        gs.append(bnot(biff(a.edge.get(k, False), b.edge.get(k, False))))
    return bor(*gs)


def concrete_dag(model, base, p, h, d):
    ev = lambda x: z3.is_true(model.eval(x, model_completion=True))
    nodes = [v for v in base if ev(p[v])]
    return nodes, [v for v in nodes if ev(h[v])], [(u, v) for (u, v), e in d.items() if ev(e)]


# ------------------------------------------------------------------------------------ native side


def ref_projection(nodes, latents, edges):
    """Independent reference: latent projection of a concrete DAG."""
    lat = set(latents)
    obs = [v for v in nodes if v not in lat]
    succ = {v: set() for v in nodes}
    for u, v in edges:
        succ[u].add(v)

    def reach_obs(src):
        out, stack, seen = set(), list(succ[src]), set()
        while stack:
            x = stack.pop()
            if x in seen:
                continue
            seen.add(x)
            if x in lat:
                stack.extend(succ[x])
            else:
                out.add(x)
        return out

    di = {(u, v) for u in obs for v in reach_obs(u)}
    bi = set()
    for l in lat:
        r = sorted(reach_obs(l), key=lambda x: x.name)
        bi |= {frozenset(c) for c in itt.combinations(r, 2)}
    return set(obs), di, bi


def make_dag(nodes, latents, edges, order=None):
    import networkx as nx

    g = nx.DiGraph()
    for v in order or nodes:
        g.add_node(v, **{TAG: v in set(latents)})
    g.add_edges_from(edges)
    return g


def dag_state(g):
    return (frozenset(g.nodes()), frozenset((v, bool(dd.get(TAG))) for v, dd in g.nodes(data=True)), frozenset(g.edges()))


def native_evans(nodes, latents, edges, order=None):
    """Run the real code on one concrete LV-DAG and evaluate the three clauses."""
    from y0.algorithm.simplify_latent import simplify_latent_dag
    from y0.graph import NxMixedGraph

    rec = {"nodes": [v.name for v in nodes], "latents": [v.name for v in latents], "edges": [[u.name, v.name] for u, v in edges], "order": [v.name for v in (order or nodes)], "bad": []}
    rec["desc"] = f"simplify_latent_dag on nodes={rec['nodes']} latents={rec['latents']} edges={rec['edges']}"
    obs, di, bi = ref_projection(nodes, latents, edges)
    try:
        g = make_dag(nodes, latents, edges, order)
        s1 = simplify_latent_dag(g).graph
        st1 = dag_state(s1)
        mixed = NxMixedGraph.from_latent_variable_dag(s1)
        got = (set(mixed.nodes()), set(mixed.directed.edges()), {frozenset(e) for e in mixed.undirected.edges()})
        if got != (obs, di, bi):
            rec["bad"].append("projection")
            rec["observed"] = f"nodes={sorted(v.name for v in got[0])} di={sorted((u.name, v.name) for u, v in got[1])} bi={sorted(tuple(sorted(x.name for x in e)) for e in got[2])}"
            rec["expected"] = f"nodes={sorted(v.name for v in obs)} di={sorted((u.name, v.name) for u, v in di)} bi={sorted(tuple(sorted(x.name for x in e)) for e in bi)}"
        if any(v not in s1 or s1.nodes[v].get(TAG) for v in obs):
            rec["bad"].append("observed-node-lost")
        # the tag keyword: the same DAG tagged under another key must simplify to the same nodes and edges
        import networkx as nx

        alt = nx.DiGraph()
        for v in order or nodes:
            alt.add_node(v, is_latent=v in set(latents))
        alt.add_edges_from(edges)
        a1 = simplify_latent_dag(alt, tag="is_latent").graph
        if (frozenset(a1.nodes()), frozenset(a1.edges())) != (st1[0], st1[2]) or any(bool(dd.get("is_latent")) != dict(st1[1])[v] for v, dd in a1.nodes(data=True)):
            rec["bad"].append("tag-keyword")
            rec["observed"] = f"with tag='is_latent': nodes={sorted(v.name for v in a1.nodes())} edges={sorted((u.name, v.name) for u, v in a1.edges())}"
        s2 = simplify_latent_dag(s1.copy()).graph
        if dag_state(s2) != st1:
            rec["bad"].append("idempotence")
            rec["once"] = f"nodes={sorted(v.name for v in st1[0])} edges={sorted((u.name, v.name) for u, v in st1[2])}"
            rec["twice"] = f"nodes={sorted(v.name for v in s2.nodes())} edges={sorted((u.name, v.name) for u, v in s2.edges())}"
    except Exception as e:  # noqa: BLE001
        rec["bad"].append("raised")
        rec["observed"] = f"{type(e).__name__}: {short(e, 120)}"
    return rec


def native_corpus(n, labellings=("fwd", "rev")):
    """Every order-respecting DAG on n nodes with every tagging, under the labellings and two insertion orders."""
    from y0.dsl import Variable

    cnt, bad = 0, []
    for lab in labellings:
        base = [Variable(x) for x in names_for(n, lab)]
        pairs = [(base[i], base[j]) for i in range(n) for j in range(i + 1, n)]
        for em in range(1 << len(pairs)):
            edges = [e for i, e in enumerate(pairs) if em >> i & 1]
            for hm in range(1 << n):
                lat = [v for i, v in enumerate(base) if hm >> i & 1]
                if not lat:
                    continue
                for order in (base, base[::-1]):
                    cnt += 1
                    r = native_evans(base, lat, edges, order)
                    if r["bad"] and len(bad) < 200:
                        bad.append(r)
    return cnt, bad


# ------------------------------------------------------------------------------------ symbolic side


def evans_work(job):
    kind, n, labelling, timeout_ms = job
    if kind == "api":
        return api_work(job)
    out = {"kind": kind, "N": n, "labelling": labelling}
    t0 = time.time()
    base, U, p, h, d, wf, g = build(n, labelling, levels=2 if kind == "idempotence" else 1)
    ip = Interp(U, lazy_generators=True)
    M.Ctx.side = []
    try:
        res, raises = ip.call("simplify_latent_dag", g)
        sg = res.graph
        if kind == "projection":
            mixed, r2 = ip.apply_entry("from_latent_variable_dag", sg)
            if not isinstance(mixed, SymMixed):
                raise Unsupported(f"from_latent_variable_dag returned {type(mixed).__name__}")
            obs, di, bi = projection_spec(base, p, h, d)
            keep = bor(*[band(obs[v], bnot(band(sg.node[v], bnot(sg.attr.get((v, TAG), False))))) for v in base])
            goal = bor(graph_differs(mixed, obs, di, bi), keep, *[x for x, _, _ in raises + r2])
        else:
            once = sg.copy()
            res2, r2 = ip.call("simplify_latent_dag", sg)
            goal = bor(dag_differs(res2.graph, once), *[x for x, _, _ in raises + r2])
    except Unsupported as e:
        out.update(status="unsupported", why=str(e))
        return out
    out["encode_s"] = time.time() - t0
    # vacuity twin: a latent with a parent and two children exists in some admissible input
    tw = "n/a"
    if n >= 4:
        tw, _, _ = solve(wf, band(h[base[1]], d[(base[0], base[1])], d[(base[1], base[2])], d[(base[1], base[3])]), timeout_ms)
    out["twin"] = tw
    verdict, model, dt = solve(wf, goal, timeout_ms)
    out.update(verdict=verdict, solve_s=dt, nvars=len(p) + len(h) + len(d))
    if verdict == "sat":
        nodes, lat, edges = concrete_dag(model, base, p, h, d)
        out["cex"] = native_evans(nodes, lat, edges)
    return out


def api_work(job):
    """evans_simplify(graph, latents=S) on a symbolic ADMG and a symbolic node set S: the result is the latent
    projection of the graph onto the nodes outside S (bidirected edges stand for their own exogenous latents)."""
    from y0.dsl import Variable

    _, n, labelling, timeout_ms = job
    out = {"kind": "api", "N": n, "labelling": labelling}
    t0 = time.time()
    base = [Variable(x) for x in names_for(n, labelling)]
    m = n * (n - 1) // 2
    lat = [Variable(f"u_{i}") for i in range(2 * m)]
    primes = [Variable(f"{v.name}_prime") for v in lat + base]
    U = primes + lat + base
    p = {v: z3.Bool(f"p_{v.name}") for v in base}
    S = {v: z3.Bool(f"s_{v.name}") for v in base}
    d = {(base[i], base[j]): z3.Bool(f"d_{base[i].name}_{base[j].name}") for i in range(n) for j in range(i + 1, n)}
    b = {frozenset((base[i], base[j])): z3.Bool(f"b_{base[i].name}_{base[j].name}") for i in range(n) for j in range(i + 1, n)}
    wf = [z3.Implies(e, z3.And(p[u], p[v])) for (u, v), e in d.items()] + [z3.Implies(e, z3.And(*[p[x] for x in k])) for k, e in b.items()]
    wf += [z3.Implies(S[v], p[v]) for v in base]
    di = M.SymDiGraph(U, {v: p.get(v, False) for v in U}, dict(d))
    un = M.SymGraph(U, {v: p.get(v, False) for v in U}, dict(b))
    g = SymMixed(di, un, U)
    from ..rsi.sym import SSet

    ip = Interp(U, lazy_generators=True)
    M.Ctx.side = []
    try:
        res, raises = ip.call("evans_simplify", g, latents=SSet(dict(S)))
        if not isinstance(res, SymMixed):
            raise Unsupported(f"evans_simplify returned {type(res).__name__}")
    except Unsupported as e:
        out.update(status="unsupported", why=str(e))
        return out
    out["encode_s"] = time.time() - t0
    R = {}
    for i in range(n):
        for j in range(i + 1, n):
            R[(i, j)] = bor(d[(base[i], base[j])], *[band(R[(i, k)], S[base[k]], d[(base[k], base[j])]) for k in range(i + 1, j)])
    obs = {v: band(p[v], bnot(S[v])) for v in base}
    sdi = {(base[i], base[j]): band(obs[base[i]], obs[base[j]], R[(i, j)]) for i in range(n) for j in range(i + 1, n)}
    # T[a][u]: a is u, or a is marginalised and reaches u through marginalised nodes only
    T = lambda a, u: True if a == u else (band(S[base[a]], R[(a, u)]) if a < u else False)
    sbi = {}
    for i in range(n):
        for j in range(i + 1, n):
            via_node = [band(S[base[l]], R[(l, i)], R[(l, j)]) for l in range(i)]
            via_edge = [band(e, bor(band(T(a, i), T(c, j)), band(T(a, j), T(c, i)))) for (a, c), e in (((base.index(min(k, key=base.index)), base.index(max(k, key=base.index))), e) for k, e in b.items())]
            sbi[frozenset((base[i], base[j]))] = band(obs[base[i]], obs[base[j]], bor(*via_node, *via_edge))
    goal = bor(graph_differs(res, obs, sdi, sbi), *[x for x, _, _ in raises])
    tw, _, _ = solve(wf, band(S[base[1]], d[(base[0], base[1])], d[(base[1], base[2])], b[frozenset((base[1], base[2]))]), timeout_ms) if n >= 3 else ("n/a", None, 0)
    out["twin"] = tw
    verdict, model, dt = solve(wf, goal, timeout_ms)
    out.update(verdict=verdict, solve_s=dt, nvars=len(p) + len(S) + len(d) + len(b))
    if verdict == "sat":
        ev = lambda x: z3.is_true(model.eval(x, model_completion=True))
        nodes = [v for v in base if ev(p[v])]
        out["cex"] = native_api(nodes, [v for v in nodes if ev(S[v])], [k for k, e in d.items() if ev(e)], [tuple(sorted(k, key=base.index)) for k, e in b.items() if ev(e)])
    return out


def native_api(nodes, marg, di, bi):
    from y0.algorithm.simplify_latent import evans_simplify
    from y0.graph import NxMixedGraph

    rec = {"api": True, "nodes": [v.name for v in nodes], "latents": [v.name for v in marg], "di": [[u.name, v.name] for u, v in di], "bi": [[u.name, v.name] for u, v in bi], "bad": []}
    rec["desc"] = f"evans_simplify on nodes={rec['nodes']} di={rec['di']} bi={rec['bi']} latents={rec['latents']}"
    # reference: explicit LV-DAG with one exogenous latent per bidirected edge, then the reference projection
    from y0.dsl import Variable

    extra = [Variable(f"ref_lat_{i}") for i in range(len(bi))]
    edges = list(di) + [(l, x) for l, e in zip(extra, bi) for x in e]
    obs, rdi, rbi = ref_projection(list(nodes) + extra, list(marg) + extra, edges)
    try:
        g = NxMixedGraph()
        for v in nodes:
            g.add_node(v)
        for u, v in di:
            g.add_directed_edge(u, v)
        for u, v in bi:
            g.add_undirected_edge(u, v)
        res = evans_simplify(g, latents=set(marg))
        got = (set(res.nodes()), set(res.directed.edges()), {frozenset(e) for e in res.undirected.edges()})
        if got != (obs, rdi, rbi):
            rec["bad"].append("projection")
            rec["observed"] = f"nodes={sorted(v.name for v in got[0])} di={sorted((u.name, v.name) for u, v in got[1])} bi={sorted(tuple(sorted(x.name for x in e)) for e in got[2])}"
            rec["expected"] = f"nodes={sorted(v.name for v in obs)} di={sorted((u.name, v.name) for u, v in rdi)} bi={sorted(tuple(sorted(x.name for x in e)) for e in rbi)}"
    except Exception as e:  # noqa: BLE001
        rec["bad"].append("raised")
        rec["observed"] = f"{type(e).__name__}: {short(e, 120)}"
    return rec


def evans_jobs(t):
    to = 120000 if t == "quick" else 900000
    jobs = []
    for n in ([5, 6] if t == "quick" else [6, 7, 8]):
        for lab in ("fwd", "rev", "mix"):
            jobs.append(("projection", n, lab, to))
            jobs.append(("idempotence", n, lab, to))
    jobs.append(("projection", 5, "pad", to))
    jobs.append(("idempotence", 5, "pad", to))
    for n in [3, 4]:  # n = 5 (70-node universe) stays 'unknown' after 10 minutes: not worth a thorough slot
        for lab in ("fwd", "rev"):
            jobs.append(("api", n, lab, to))
    return sorted(jobs, key=lambda j: -j[1] if j[0] != "api" else -2 * j[1])


def native_api_corpus(n):
    """evans_simplify on every ADMG with order-respecting directed edges on n nodes and every marginalised subset."""
    from y0.dsl import Variable

    base = [Variable(f"V{i}") for i in range(n)]
    pairs = list(itt.combinations(base, 2))
    cnt, bad = 0, []
    for dm in range(1 << len(pairs)):
        di = [e for i, e in enumerate(pairs) if dm >> i & 1]
        for bm in range(1 << len(pairs)):
            bi = [e for i, e in enumerate(pairs) if bm >> i & 1]
            for hm in range(1 << n):
                cnt += 1
                r = native_api(base, [v for i, v in enumerate(base) if hm >> i & 1], di, bi)
                if r["bad"] and len(bad) < 50:
                    bad.append(r)
    return cnt, bad

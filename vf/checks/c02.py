"""C02 — ID verdicts are total, complete and side-effect free.

Solver-decided content: the identifiability verdict of every enumerated (G, X, Y) — a hedge
(Shpitser & Pearl Def. 6) exists iff the SAT query is sat — compared with what the real ID
returns.  Totality and side-effect freedom are observed on the real run of every case.
"""

from __future__ import annotations

from ..common import HarnessError, Report, Violation, pmap, seed, short, tier
from ..graphs import CURATED, GSpec, family, xy_queries
from ..oracles.hedge import check_hedge_witness, hedge_exists, ref_identifiable
from ..sem.harness import hashseed

PROP = "C02"


def snapshot(nx_graph):
    return (
        tuple(nx_graph.nodes()),
        tuple(nx_graph.directed.edges()),
        tuple(nx_graph.undirected.edges()),
        tuple(nx_graph.undirected.nodes()),
    )


def run_one(g: GSpec, X, Y):
    """Run the real ID; returns dict(status, exc, mutated)."""
    from y0.algorithm.identify import identify_outcomes
    from y0.dsl import Expression, Variable

    nxg = g.to_nx()
    xs = {Variable(x) for x in X}
    ys = {Variable(y) for y in Y}
    before = (snapshot(nxg), frozenset(xs), frozenset(ys))
    rec = {}
    try:
        est = identify_outcomes(nxg, xs, ys)
    except Exception as e:  # noqa: BLE001
        rec["status"] = "crash"
        rec["exc"] = f"{type(e).__name__}: {short(e, 160)}"
    else:
        if est is None:
            rec["status"] = "refused"
        elif isinstance(est, Expression):
            rec["status"] = "estimand"
            rec["est"] = str(est)
        else:
            rec["status"] = "crash"
            rec["exc"] = f"returned {type(est).__name__}"
    after = (snapshot(nxg), frozenset(xs), frozenset(ys))
    rec["mutated"] = before != after
    return rec


def work(job):
    g, queries = job
    out = []
    for X, Y in (queries if queries is not None else xy_queries(g.nodes)):
        X, Y = sorted(X), sorted(Y)
        rec = {"g": g.to_json(), "X": X, "Y": Y}
        rec.update(run_one(g, X, Y))
        verdict, wit, dt = hedge_exists(g, X, Y)
        rec["hedge"] = verdict
        rec["secs"] = dt
        rec["wit"] = wit
        if verdict == "sat" and not check_hedge_witness(g, X, Y, wit):
            rec["oracle_error"] = "SAT witness is not a hedge by the concrete definition"
        ref = ref_identifiable(g, X, Y)
        rec["ref"] = ref
        if verdict in ("sat", "unsat") and ref != (verdict == "unsat"):
            rec["oracle_error"] = f"hedge SAT says {verdict} but the reference ID says identifiable={ref}"
        out.append(rec)
    return out


def jobs_for(t):
    jobs = []
    if t == "quick":
        gs = family(3) + [g for g in CURATED.values()]
        gs += [g for i, g in enumerate(family(4, labellings=("fwd",), n_min=4)) if i % 4 == seed() % 4]
    else:
        gs = family(4) + [g for g in CURATED.values()]
    for g in gs:
        jobs.append((g, None))
    return jobs


def run() -> int:
    t = tier()
    rep = Report(PROP, "translation_validation")
    rep.functions = [
        "y0.algorithm.identify.identify_outcomes / id_std.identify (run natively; outcome, exception and input objects observed)",
        "hedge criterion (Shpitser & Pearl 2006, Def. 6) as a SAT query per (G, X, Y) (vf/oracles/hedge.py)",
    ]
    rep.bounds = {
        "graphs": "quick: ADMGs <=3 nodes (two labellings), curated 4/5-node list, 1/4 of the 4-node classes; thorough: all ADMGs <=4 nodes under two labellings + curated list",
        "queries": "all disjoint non-empty (X, Y)",
        "PYTHONHASHSEED": hashseed(),
    }
    rep.assumptions = [
        "soundness and completeness of the hedge criterion (Shpitser & Pearl 2006, Thm 4/5) — trusted theorem linking 'hedge exists' to non-identifiability",
        "the SAT encoding is cross-checked on every case against a transcription of the paper's ID (disagreement = harness error, exit 2) and every SAT witness is re-checked concretely",
        "totality ('never fails in another way') and side-effect freedom are decided by observation of the real run on each enumerated case, not by the solver",
    ]
    rep.rule = "cases = (graph, X, Y); non-trivial = the graph has at least one bidirected edge and X has an ancestor-of-Y member (the verdict is not forced by lines 1-3); distinct by (graph key, X, Y)"
    for job, st, res in pmap(work, jobs_for(t)):
        if st != "ok":
            rep.harness_errors.append(short(res, 600))
            continue
        for r in res:
            rep.cases += 1
            g = GSpec.from_json(r["g"])
            key = f"{g.key()} do({','.join(r['X'])}) -> {','.join(r['Y'])}"
            rep.count(r["status"])
            rep.obligations += 1
            rep.solver_s += r["secs"]
            if r.get("oracle_error"):
                rep.harness_errors.append(f"{key}: {r['oracle_error']}")
                continue
            if r["hedge"] == "unknown":
                rep.inconclusive += 1
                continue
            rep.discharged += 1
            rep.count("hedge_" + r["hedge"])
            if g.bi and set(r["X"]) & set(g.ancestors(r["Y"])):
                rep.nontrivial.add(key)
            if len(rep.samples) < 6 and r["hedge"] == "sat" and len(g.nodes) >= 3:
                rep.add_sample({"case": key, "y0": r["status"], "hedge": r["wit"]})
            payload = {"property": PROP, "graph": r["g"], "X": r["X"], "Y": r["Y"], "hashseed": hashseed(), "y0": r["status"], "hedge": r["hedge"], "witness": r["wit"]}
            if r["status"] == "crash":
                payload["kind"] = "crash"
                payload["exc"] = r["exc"]
                rep.add_violation(Violation(PROP, [key, "crash:" + r["exc"].split(":")[0]], f"ID failed with {r['exc']} for {key}", payload))
            elif r["status"] == "refused" and r["hedge"] == "unsat":
                payload["kind"] = "wrong_refusal"
                rep.add_violation(Violation(PROP, [key], f"ID refused {key} but no hedge exists (identifiable)", payload))
            elif r["status"] == "estimand" and r["hedge"] == "sat":
                payload["kind"] = "wrong_answer"
                payload["est"] = r["est"]
                rep.add_violation(Violation(PROP, [key], f"ID answered {short(r['est'], 100)} for {key} although a hedge exists: {r['wit']}", payload))
            if r["mutated"]:
                p2 = dict(payload)
                p2["kind"] = "mutated"
                rep.add_violation(Violation(PROP, [key + " mutated"], f"ID modified its input graph or query sets for {key}", p2))
    from .. import history_runs

    history_runs.run(rep, PROP)
    return rep.finish()


def replay(payload: dict) -> int:
    if payload.get("kind") == "history":
        from .. import history_runs

        return history_runs.replay(PROP, payload)
    g = GSpec.from_json(payload["graph"])
    X, Y = payload["X"], payload["Y"]
    rec = run_one(g, X, Y)
    verdict, wit, _ = hedge_exists(g, X, Y)
    print("graph", g.key(), "X", X, "Y", Y)
    print("y0 now:", rec, "| hedge:", verdict, wit, "| reference ID identifiable:", ref_identifiable(g, X, Y))
    kind = payload["kind"]
    bad = (
        (kind == "crash" and rec["status"] == "crash")
        or (kind == "wrong_refusal" and rec["status"] == "refused" and verdict == "unsat")
        or (kind == "wrong_answer" and rec["status"] == "estimand" and verdict == "sat")
        or (kind == "mutated" and rec["mutated"])
    )
    print("reproduced" if bad else "not reproduced")
    return 1 if bad else 0

"""C17 — Tian-Pearl c-factor identification returns the true c-factor (engine SEM, ScmL2)."""

from __future__ import annotations

import itertools as itt

from ..common import Report, Unsupported, Violation, pmap, seed, short, tier
from ..graphs import CURATED, GSpec, family
from ..sem import exact
from ..sem.denote import Denoter, free_names
from ..sem.harness import grid_params, hashseed, params_from_json, params_to_json
from ..sem.l2 import TARGET, SymL2
from ..sem.rat import Decider, differ_any
from .c01 import obs_vocab

PROP = "C17"
TIMEOUT_MS = {"quick": 10000, "thorough": 30000}


def topo_orders(g: GSpec, limit=None):
    out = []
    for perm in itt.permutations(g.nodes):
        pos = {n: i for i, n in enumerate(perm)}
        if all(pos[u] < pos[v] for u, v in g.di):
            out.append(perm)
            if limit and len(out) >= limit:
                break
    return out


def single_district_subsets(g: GSpec, T):
    for k in range(1, len(T) + 1):
        for C in itt.combinations(sorted(T), k):
            if len(g.districts(within=set(C))) == 1:
                yield frozenset(C)


def run_lemma1(g: GSpec, T, topo):
    from y0.algorithm.tian_id import compute_c_factor
    from y0.dsl import P, Variable

    V = [Variable(n) for n in topo]
    return compute_c_factor(district=[Variable(n) for n in topo if n in T], subgraph_variables=set(V), subgraph_probability=P(V), graph_topo=V)


def plain_conditional(children, parents, population=False):
    """P(children | parents) as one Probability object (or PP[pi*](children | parents))."""
    from y0.dsl import TARGET_DOMAIN, Distribution, PopulationProbability, Probability, Variable

    d = Distribution(children=tuple(Variable(n) for n in children), parents=tuple(Variable(n) for n in parents))
    return PopulationProbability(population=TARGET_DOMAIN, distribution=d) if population else Probability(d)


def make_form(form, g, T, topo):
    """The expression handed to IDENTIFY as Q[T] (tian_id.py has separate branches for plain and population-tagged
    probabilities, and for joint / conditional / derived inputs)."""
    from y0.algorithm.tian_id import compute_c_factor
    from y0.dsl import Variable

    inside, outside = [n for n in topo if n in T], [n for n in topo if n not in T]
    if form == "lemma1":
        return run_lemma1(g, T, topo)
    if form == "conditional":
        return plain_conditional(inside, outside)
    if form == "pp-conditional":
        return plain_conditional(inside, outside, population=True)
    if form == "pp-lemma1":
        V = [Variable(n) for n in topo]
        return compute_c_factor(district=[Variable(n) for n in inside], subgraph_variables=set(V), subgraph_probability=plain_conditional(topo, [], population=True), graph_topo=V)
    raise ValueError(form)


def chain_product(topo):
    """P(V) written as the raw product of P(v_i | v_1 .. v_{i-1}) along the order."""
    from y0.dsl import Product

    return Product(tuple(plain_conditional([n], list(topo[:i])) for i, n in enumerate(topo)))


def sum_over(e, names):
    from y0.dsl import Sum, Variable

    return Sum(expression=e, ranges=frozenset(Variable(n) for n in names))


def anc_within(g: GSpec, T, C):
    """Ancestors (inclusive) of C in the sub-graph induced by T."""
    T = set(T)
    out, stack = set(C), list(C)
    while stack:
        v = stack.pop()
        for p in g.parents(v):
            if p in T and p not in out:
                out.add(p)
                stack.append(p)
    return out


def run_lemma3(A, T, qT, topo):
    from y0.algorithm.tian_id import compute_ancestral_set_q_value
    from y0.dsl import Variable

    return compute_ancestral_set_q_value(ancestral_set=frozenset(Variable(n) for n in A), subgraph_variables=frozenset(Variable(n) for n in T), subgraph_probability=qT, graph_topo=[Variable(n) for n in topo])


def run_lemma4(D, A, qA, topo):
    from y0.algorithm.tian_id import compute_c_factor
    from y0.dsl import Variable

    return compute_c_factor(district=[Variable(n) for n in topo if n in D], subgraph_variables={Variable(n) for n in A}, subgraph_probability=qA, graph_topo=[Variable(n) for n in topo])


def run_identify(g: GSpec, C, T, qT, topo):
    from y0.algorithm.tian_id import identify_district_variables
    from y0.dsl import Variable

    return identify_district_variables(
        input_variables=frozenset(Variable(n) for n in C),
        input_district=frozenset(Variable(n) for n in T),
        district_probability=qT,
        graph=g.to_nx(),
        topo=[Variable(n) for n in topo],
    )


def q_truth(model_or_world, g, S, env, exact_mode=False):
    do = {n: env[n] for n in g.nodes if n not in S}
    assign = {n: env[n] for n in S}
    if exact_mode:
        return model_or_world.prob(TARGET, do, assign)
    return model_or_world.prob_rat(TARGET, do, assign)


def decide(g, expr, S, model, den, timeout_ms):
    """forall parameters, forall env over V: [[expr]] == Q[S]."""
    out = {"verdict": None, "secs": 0.0}
    envs, pairs = [], []
    try:
        for vals in itt.product((0, 1), repeat=len(g.nodes)):
            env = dict(zip(g.nodes, vals))
            pairs.append((den.ev(expr, env, env), q_truth(model, g, S, env)))
            envs.append(env)
    except Unsupported as e:
        return {"verdict": "vocabulary", "why": str(e), "secs": 0.0}
    verdict, m, dt = differ_any(Decider(model.constraints, timeout_ms, model.params), pairs)
    out["verdict"], out["secs"] = verdict, dt
    if verdict == "sat":
        for params in [model.model_to_params(m)] + [grid_params(model.params, s) for s in range(6)]:
            w = exact.ExactL2(g, params)
            for env in envs:
                try:
                    a = exact.evaluate(expr, w, env)
                except exact.Undefined as e:
                    continue
                b = q_truth(w, g, S, env, exact_mode=True)
                if a != b:
                    out.update({"env": env, "params": params_to_json(params), "est": str(a), "truth": str(b)})
                    return out
        out["verdict"] = "noreplay"
    return out


def work(job):
    g, n_orders, timeout_ms = job
    model = SymL2(g)
    den = Denoter(model, vocab=obs_vocab(g.nodes))
    res = []
    orders = topo_orders(g, n_orders)
    # Lemma 4 on its own: Q[A] of an ancestral set A of G handed over as a product / sum (never a plain probability, so
    # the Lemma-4 routine is the one used), for every topological order when the graph has <= 4 nodes: the positions
    # that a district occupies inside the order (gaps, first position or not) are what its index arithmetic depends on
    direct_orders = topo_orders(g, None) if len(g.nodes) <= 4 else orders
    if len(g.nodes) < 2 or (len(g.nodes) >= 5 and tier() == "quick"):
        direct_orders = []  # (five-node graphs: thorough tier only)
    if len(g.nodes) == 4 and len(direct_orders) > 3:
        k = 3 if tier() == "quick" else 2
        direct_orders = direct_orders[seed() % k :: k]  # every third (quick) / second (thorough) order of a 4-node graph
    for topo in direct_orders:
        chain = chain_product(topo)
        sizes = (1,) if tier() == "quick" else (1, 2)
        if len(g.nodes) >= 5:
            sizes = ()  # five-node graphs (thorough only): A = V
        anc_sets = {frozenset(g.nodes)} | {frozenset(g.ancestors(S)) for k in sizes for S in itt.combinations(g.nodes, k)}
        for A in sorted(anc_sets, key=sorted):
            rest = [n for n in topo if n not in A]
            qA = sum_over(chain, rest) if rest else chain
            for D in g.districts(within=set(A)):
                recD = {"g": g.to_json(), "topo": list(topo), "T": sorted(A), "A": sorted(A), "C": sorted(D), "kind": "lemma4-direct"}
                try:
                    e = run_lemma4(D, A, qA, topo)
                except Exception as ex:  # noqa: BLE001
                    res.append(dict(recD, status="crash", exc=f"{type(ex).__name__}: {short(ex, 120)}"))
                    continue
                r4 = decide(g, e, D, model, den, timeout_ms)
                res.append(dict(recD, status="ok", out=str(e), **r4))
    for topo in orders:
        for T in g.districts():
            rec0 = {"g": g.to_json(), "topo": list(topo), "T": sorted(T)}
            try:
                qT = run_lemma1(g, T, topo)
            except Exception as e:  # noqa: BLE001
                res.append(dict(rec0, kind="lemma1", status="crash", exc=f"{type(e).__name__}: {short(e, 120)}"))
                continue
            r = decide(g, qT, T, model, den, timeout_ms)
            res.append(dict(rec0, kind="lemma1", status="ok", out=str(qT), **r))
            # second clause of the property: Q of EVERY district of an ancestral set A of G_T, computed from Q[A]
            # (Lemma 3, then Lemma 4) - IDENTIFY itself only ever asks for the district that contains C
            seen_A = set()
            for C in single_district_subsets(g, T):
                A = frozenset(anc_within(g, T, C))
                if A == frozenset(T) or A in seen_A:
                    continue
                seen_A.add(A)
                recA = dict(rec0, A=sorted(A))
                try:
                    qA = run_lemma3(A, T, qT, topo)
                except Exception as e:  # noqa: BLE001
                    res.append(dict(recA, kind="lemma3", status="crash", exc=f"{type(e).__name__}: {short(e, 120)}"))
                    continue
                r3 = decide(g, qA, A, model, den, timeout_ms)
                res.append(dict(recA, kind="lemma3", status="ok", out=str(qA), **r3))
                for D in g.districts(within=set(A)):
                    recD = dict(recA, C=sorted(D))
                    try:
                        e = run_lemma4(D, A, qA, topo)
                    except Exception as ex:  # noqa: BLE001
                        res.append(dict(recD, kind="lemma4", status="crash", exc=f"{type(ex).__name__}: {short(ex, 120)}"))
                        continue
                    r4 = decide(g, e, D, model, den, timeout_ms)
                    res.append(dict(recD, kind="lemma4", status="ok", out=str(e), **r4))
            forms = [("lemma1", qT)]
            try:
                forms.append(("pp-lemma1", make_form("pp-lemma1", g, T, topo)))
            except Exception as e:  # noqa: BLE001
                res.append(dict(rec0, kind="qT-pp-lemma1", status="crash", exc=f"{type(e).__name__}: {short(e, 120)}"))
            outside = [n for n in topo if n not in T]
            if outside and all(not g.parents(n) and not any(n in e for e in g.bi) for n in outside):
                # every node outside T is an unconfounded root: Q[T] = P(T | do(V - T)) = P(T | V - T), a plain conditional
                forms.append(("conditional", make_form("conditional", g, T, topo)))
                forms.append(("pp-conditional", make_form("pp-conditional", g, T, topo)))
            for form, q in forms:
                if form != "lemma1":
                    r0 = decide(g, q, T, model, den, timeout_ms)
                    res.append(dict(rec0, kind="qT-" + form, status="ok", out=str(q), **r0))
                for C in single_district_subsets(g, T):
                    rec = dict(rec0, C=sorted(C), kind="identify", form=form)
                    try:
                        e = run_identify(g, C, T, q, topo)
                    except Exception as ex:  # noqa: BLE001
                        res.append(dict(rec, status="crash", exc=f"{type(ex).__name__}: {short(ex, 120)}"))
                        continue
                    if e is None:
                        res.append(dict(rec, status="fail"))
                        continue
                    r = decide(g, e, C, model, den, timeout_ms)
                    res.append(dict(rec, status="ok", out=str(e), **r))
    return res


def conditional_input_graph(g: GSpec) -> bool:
    """Some district T of >= 3 nodes, every node outside T an unconfounded root with a child: Q[T] can be given as
    the plain conditional P(T | V - T), and IDENTIFY can recurse (C < An(C) < T needs |T| >= 3)."""
    for T in g.districts():
        out = [n for n in g.nodes if n not in T]
        if len(T) >= 3 and out and all(not g.parents(n) and not any(n in e for e in g.bi) and g.children(n) for n in out):
            return True
    return False


def deep5_graphs():
    """The 268 five-node graphs of the deep ID corpus (nested districts: IDENTIFY recurses twice on many of them)."""
    import json
    from pathlib import Path

    data = json.loads((Path(__file__).resolve().parent.parent / "data" / "id_deep5.json").read_text())
    seen = {}
    for c in data["cases"]:
        g = GSpec.from_json(c["g"])
        seen.setdefault(g.key(), g)
    return [seen[k] for k in sorted(seen)]


def big_district_graphs(count, salt):
    """Five-node ADMGs that are ONE district (a spanning tree of bidirected edges plus a few more) with a pseudo-random
    set of order-respecting directed edges: IDENTIFY then starts from |T| = 5, which the recursion needs in order to
    reach a second level with |C| >= 2 (deterministic in `salt`)."""
    import random

    rnd = random.Random(1000 + salt)
    nodes = ("A", "B", "C", "D", "E")
    pairs = list(itt.combinations(nodes, 2))
    out = []
    while len(out) < count:
        perm = list(nodes)
        rnd.shuffle(perm)
        # spanning tree: each node after the first attaches to a random earlier one
        tree = {tuple(sorted((perm[i], perm[rnd.randrange(i)]))) for i in range(1, 5)}
        extra = {p for p in pairs if rnd.random() < 0.15}
        di = tuple(p for p in pairs if rnd.random() < 0.45)
        g = GSpec(nodes, di, tuple(sorted(tree | extra)))
        if max(len(g.parents(n)) for n in g.nodes) <= 3:
            out.append(g)
    return out


def jobs_for(t):
    jobs = []
    to = TIMEOUT_MS[t]
    for g in big_district_graphs(48 if t == "quick" else 400, seed()):
        jobs.append((g, 1, to))
    k5 = 16 if t == "quick" else 3
    for i, g in enumerate(deep5_graphs()):
        if i % k5 == seed() % k5:
            jobs.append((g, 1, to))
    if t == "quick":
        for g in family(3):
            jobs.append((g, None, to))
        for i, g in enumerate(family(4, labellings=("fwd",), n_min=4)):
            if i % 4 != seed() % 4 and conditional_input_graph(g):
                jobs.append((g, 2, to))
        for name in ("napkin", "frontdoor", "verma", "fig3_tikka", "two_fd"):
            jobs.append((CURATED[name], 2, to))
        for i, g in enumerate(family(4, labellings=("fwd",), n_min=4)):
            if i % 4 == seed() % 4:
                jobs.append((g, 2, to))
    else:
        for g in family(3):
            jobs.append((g, None, to))
        for g in family(4, n_min=4):
            jobs.append((g, 2, to))
        for name, g in CURATED.items():
            if len(g.nodes) <= 5:
                jobs.append((g, 2, to))
    return jobs


def run() -> int:
    t = tier()
    rep = Report(PROP, "translation_validation")
    rep.functions = [
        "y0.algorithm.tian_id.compute_c_factor (Lemma 1 / Lemma 4), compute_c_factor_conditioning_on_topological_predecessors, compute_c_factor_marginalizing_over_topological_successors, compute_q_value_of_variables_with_low_topological_ordering_indices",
        "y0.algorithm.tian_id.identify_district_variables (IDENTIFY recursion), compute_ancestral_set_q_value (Lemma 3) — all run natively",
        "returned Expression -> z3 polynomial terms (vf/sem/denote.py)",
    ]
    rep.bounds = {
        "graphs": "both tiers: 48 (quick) / 400 (thorough) pseudo-random five-node single-district graphs (seeded by VERIF_SEED); a seed-chosen slice (quick 1/16, thorough 1/3) of 268 five-node graphs with nested districts (the graphs of vf/data/id_deep5.json), one topological order; quick: ADMGs <=3 nodes (two labellings, every topological order), curated 4-node graphs (2 orders), 1/4 of the 4-node classes (2 orders); thorough: all ADMGs <=4 nodes (two labellings, 2 orders), curated list",
        "inputs": "every district T; Q[T] = the library's own Lemma-1 product from P(V) and, when every node outside T is an unconfounded root, also the plain conditional P(T | V - T); each form also population-tagged (PP[pi*]), since tian_id.py has separate branches for it (both tiers: every 4-node class with a 3-node district and such a root); every non-empty C subset of T inducing a single district; for every proper ancestral set A = An(C) of G_T: Q[A] by Lemma 3 (compute_ancestral_set_q_value) and Q[D] for EVERY district D of G_A by compute_c_factor on that derived expression (Lemma 4)",
        "lemma4_direct": "for every graph of the run, every topological order when it has <= 4 nodes (4-node graphs: every third order and |S| = 1 in the quick tier, every second order in the thorough tier; five-node graphs: A = V only, graphs: thorough tier only, the orders above), every ancestral set A = V or An(S), |S| <= 2: Q[A] handed over as the raw chain-rule product of P(v_i | v_1..v_i-1), summed over V - A, and Q[D] requested for every district D of G_A (the Lemma-4 routine is selected because Q[A] is a product / sum)",
        "models": "all positive binary SCMs, one binary latent per bidirected edge; all value assignments of all variables in one query",
        "per_query_timeout_ms": TIMEOUT_MS[t],
        "PYTHONHASHSEED": hashseed(),
    }
    rep.assumptions = ["Q[S] is the truncated-factorisation value P(s | do(v minus s)); 'fail' (None) is accepted", "semantics of expressions as in DESIGN.md §2"]
    rep.rule = "cases = one call of compute_c_factor or identify_district_variables; non-trivial = identify_district_variables returned an expression for C != T; distinct by (graph, order, T, C)"
    for job, st, res in pmap(work, jobs_for(t)):
        if st != "ok":
            rep.harness_errors.append(short(res, 600))
            continue
        for r in res:
            rep.cases += 1
            g = GSpec.from_json(r["g"])
            key = f"{g.key()} order={''.join(r['topo']) if all(len(x) == 1 for x in r['topo']) else r['topo']} T={r['T']}" + (f" A={r['A']}" if "A" in r else "") + (f" C={r['C']}" if "C" in r else "") + f" [{r['kind']}{'/' + r['form'] if r.get('form', 'lemma1') != 'lemma1' else ''}]"
            rep.count(r["kind"] + ":" + r["status"])
            base = {"property": PROP, "graph": r["g"], "topo": r["topo"], "T": r["T"], "C": r.get("C"), "A": r.get("A"), "call": r["kind"], "form": r.get("form"), "hashseed": hashseed()}
            if r["status"] == "crash":
                rep.add_violation(Violation(PROP, [key, "crash:" + r["kind"] + ":" + r["exc"].split(":")[0]], f"{r['kind']} raised {r['exc']} for {key}", dict(base, kind="crash", exc=r["exc"])))
                continue
            if r["status"] != "ok":
                continue
            rep.obligations += 1
            rep.solver_s += r["secs"]
            if r["kind"] == "identify" and r.get("C") != r["T"]:
                rep.nontrivial.add(key)
            v = r["verdict"]
            if v == "unsat":
                rep.discharged += 1
                if r["kind"] == "identify" and len(rep.samples) < 8 and r.get("C") != r["T"]:
                    rep.add_sample({"case": key, "output": short(r["out"], 200), "verdict": "unsat"})
            elif v == "unknown":
                rep.inconclusive += 1
                rep.inconclusive_samples.append(key)
            elif v == "noreplay":
                rep.harness_errors.append(f"sat model did not replay for {key}")
            elif v == "vocabulary":
                rep.add_violation(Violation(PROP, [key], f"{r['kind']} returned {short(r['out'], 120)} for {key}: {r['why']}", dict(base, kind="vocabulary", why=r["why"])))
            else:
                rep.refuted += 1
                what = f"{r['kind']} returned {short(r['out'], 140)} for {key}: value {r['est']} != Q = {r['truth']} at {r['env']}"
                rep.add_violation(Violation(PROP, [key], what, dict(base, kind="wrong", env=r["env"], params=r["params"], out_seen=r["out"])))
    if not rep.samples:
        rep.add_sample({"note": "no non-trivial IDENTIFY output in this run"})
    from .. import history_runs

    history_runs.run(rep, PROP)
    return rep.finish()


class _Done(Exception):
    pass


def replay(payload: dict) -> int:
    if payload.get("kind") == "history":
        from .. import history_runs

        return history_runs.replay(PROP, payload)
    g = GSpec.from_json(payload["graph"])
    topo, T, C = payload["topo"], set(payload["T"]), payload.get("C")
    print("graph", g.key(), "order", topo, "T", sorted(T), "C", C)
    try:
        if payload["call"] == "lemma4-direct":
            A = set(payload["A"])
            chain = chain_product(topo)
            rest = [n for n in topo if n not in A]
            expr, S = run_lemma4(set(C), A, sum_over(chain, rest) if rest else chain, topo), set(C)
            raise _Done
        qT = make_form(payload.get("form") or (payload["call"][3:] if payload["call"].startswith("qT-") else "lemma1"), g, T, topo)
        if payload["call"] in ("lemma3", "lemma4"):
            A = set(payload["A"])
            qA = run_lemma3(A, T, run_lemma1(g, T, topo), topo)
            expr, S = (qA, A) if payload["call"] == "lemma3" else (run_lemma4(set(C), A, qA, topo), set(C))
        else:
            expr, S = (qT, T) if payload["call"] == "lemma1" or payload["call"].startswith("qT-") else (run_identify(g, set(C), T, qT, topo), set(C))
    except _Done:
        pass
    except Exception as e:  # noqa: BLE001
        print(f"raised {type(e).__name__}: {e}")
        return 1 if payload["kind"] == "crash" else 0
    print("output now:", expr)
    if expr is None or payload["kind"] != "wrong":
        print("not reproduced" if payload["kind"] in ("wrong", "crash") else "recorded: " + str(payload.get("why")))
        return 0 if payload["kind"] in ("wrong", "crash") else 1
    w = exact.ExactL2(g, params_from_json(payload["params"]))
    env = payload["env"]
    a = exact.evaluate(expr, w, env)
    b = q_truth(w, g, S, env, exact_mode=True)
    print(f"value {a}, Q = {b}:", "reproduced" if a != b else "not reproduced")
    return 1 if a != b else 0

"""C20 — sigma-separation agrees with d-separation on acyclic graphs; symmetric and adjacency-respecting on all graphs (RSI)."""

from __future__ import annotations

import itertools as itt
import time

import z3

from ..common import Report, Unsupported, Violation, pmap, seed, short, tier
from ..rsi.harness import SymInput, raise_guard, solve, universe
from ..rsi.interp import Interp
from ..rsi.sym import SSet, band, biff, bnot, bor, guard_of, is_sym, lift
from .c04 import c_connected, spec_connected

PROP = "C20"
D11_KEY = "sigma:collider-opened-only-by-a-descendant-two-or-more-steps-away"


def c_connected_shallow(nodes, di, bi, a, b, C):
    """d-connection by a *simple path* on which every collider is in C or has a child in C.

    This is what simple-path enumeration plus a one-step back-track can establish; if the pair is d-connected
    but not in this restricted sense, the wrong 'separated' verdict is attributed to the known finding D11."""
    C = set(C)
    near = C | {u for u, v in di if v in C}
    bis = {frozenset(e) for e in bi}
    nodes = list(nodes)

    def marks(u, v):
        """possible (mark at u, mark at v) of an edge between u and v"""
        out = []
        if (u, v) in di:
            out.append(("t", "h"))
        if (v, u) in di:
            out.append(("h", "t"))
        if frozenset((u, v)) in bis:
            out.append(("h", "h"))
        return out

    def dfs(path, mark_in):
        v = path[-1]
        if v == b:
            return True
        for w in nodes:
            if w in path:
                continue
            for mv, mw in marks(v, w):
                if len(path) > 1:
                    collider = mark_in == "h" and mv == "h"
                    if collider and v not in near:
                        continue
                    if not collider and v in C:
                        continue
                if dfs(path + [w], mw):
                    return True
        return False

    return dfs([a], None)


def spec_shallow(inp, a, b, C):
    """Symbolic counterpart of c_connected_shallow: some simple path with edge-kind choice is open when a collider
    needs to be in C or to have a child in C."""
    U = inp.U
    Cs = set(C)
    near = {v: bor(v in Cs, *[inp.d[(v, c)] for c in C if c != v]) for v in U}
    others = [v for v in U if v not in (a, b)]
    alts = []
    for k in range(len(others) + 1):
        for mid in itt.permutations(others, k):
            path = (a, *mid, b)
            edges = list(zip(path, path[1:]))
            for kinds in itt.product(("f", "r", "b"), repeat=len(edges)):
                gs = []
                marks = []
                for (u, v), kd in zip(edges, kinds):
                    if kd == "f":
                        gs.append(inp.d[(u, v)])
                        marks.append(("t", "h"))
                    elif kd == "r":
                        gs.append(inp.d[(v, u)])
                        marks.append(("h", "t"))
                    else:
                        gs.append(inp.b[frozenset((u, v))])
                        marks.append(("h", "h"))
                for i in range(1, len(path) - 1):
                    v = path[i]
                    collider = marks[i - 1][1] == "h" and marks[i][0] == "h"
                    gs.append(near[v] if collider else (v not in Cs))
                alts.append(band(*gs))
    return bor(*alts)


def native_case(nodes, di, bi, a, b, C, acyclic):
    from y0.algorithm.separation.sigma_separation import are_sigma_separated
    from y0.graph import NxMixedGraph

    g = NxMixedGraph()
    for n in nodes:
        g.add_node(n)
    for u, v in di:
        g.add_directed_edge(u, v)
    for u, v in bi:
        g.add_undirected_edge(u, v)
    rec = {"nodes": [n.name for n in nodes], "di": [[u.name, v.name] for u, v in di], "bi": [[u.name, v.name] for u, v in bi], "a": a.name, "b": b.name, "C": [c.name for c in C], "acyclic": acyclic}
    try:
        s1 = bool(are_sigma_separated(g, a, b, conditions=set(C)))
        s2 = bool(are_sigma_separated(g, b, a, conditions=list(C) if C else None))  # None = no conditions
    except Exception as e:  # noqa: BLE001
        rec["observed"] = f"raised {type(e).__name__}: {short(e, 100)}"
        rec["bad"] = True
        rec["d11"] = False
        return rec
    problems = []
    if s1 != s2:
        problems.append(f"not symmetric: ({a},{b})={s1} ({b},{a})={s2}")
    adjacent = (a, b) in di or (b, a) in di or any(set(e) == {a, b} for e in bi)
    if adjacent and (s1 or s2):
        problems.append("adjacent nodes reported separated")
    rec["d11"] = False
    if acyclic:
        want = not c_connected(nodes, set(di), bi, a, b, C)
        if s1 != want:
            problems.append(f"sigma-separated={s1} but d-separated={want}")
            # attributable to the known one-step back-track limit?
            if s1 and not want and not c_connected_shallow(nodes, set(di), bi, a, b, C) and len(problems) == 1:
                rec["d11"] = True
    rec["observed"] = "; ".join(problems) if problems else "ok"
    rec["bad"] = bool(problems)
    return rec


def work(job):
    N, a_i, b_i, Cmask, acyclic, timeout_ms = job
    U = universe(N)
    a, b = U[a_i], U[b_i]
    rest = [v for v in U if v not in (a, b)]
    C = [v for i, v in enumerate(rest) if Cmask >> i & 1]
    out = {"N": N, "a": a.name, "b": b.name, "C": [c.name for c in C], "acyclic": acyclic}
    it = Interp(U)
    inp = SymInput(U, acyclic=acyclic, all_present=True)
    cons = list(inp.wf)
    t0 = time.time()
    try:
        s1, r1 = it.call("are_sigma_separated", inp.mixed(), a, b, conditions=set(C))
        s2, r2 = it.call("are_sigma_separated", inp.mixed(), b, a, conditions=set(C))
    except Unsupported as e:
        out["status"] = "unsupported"
        out["why"] = str(e)
        return out
    out["encode_s"] = time.time() - t0
    g1, g2 = guard_of(s1), guard_of(s2)
    adjacent = bor(inp.d[(a, b)], inp.d[(b, a)], inp.b[frozenset((a, b))])
    bad = [bnot(biff(g1, g2)), band(adjacent, g1), raise_guard(r1 + r2)]
    explained = False
    if acyclic:
        spec = bnot(spec_connected(inp, a, b, C))
        bad.append(bnot(biff(g1, spec)))
        # a wrong 'separated' verdict that a one-step look-ahead cannot avoid (known finding D11)
        explained = band(g1, bnot(spec), bnot(spec_shallow(inp, a, b, C)))
    verdict, model, dt = solve(cons, bor(*bad), timeout_ms)
    out["verdict"], out["solve_s"] = verdict, dt
    if verdict == "sat" and acyclic:
        # is there a counterexample that the known finding does not explain?
        v2, m2, dt2 = solve(cons, band(bor(*bad), bnot(explained)), timeout_ms)
        out["solve_s"] += dt2
        out["unexplained"] = v2
        if v2 == "sat":
            model = m2
    out["nvars"] = len(inp.d) + len(inp.b)
    tw, _, _ = solve(cons, g1, timeout_ms)
    tw2, _, _ = solve(cons, bnot(g1), timeout_ms)
    out["twin"] = "sat" if tw == "sat" and tw2 == "sat" else f"{tw}/{tw2}"
    if verdict == "sat":
        nodes, di, bi = inp.concrete(model)
        out["cex"] = native_case(nodes, di, bi, a, b, C, acyclic)
    return out


def native_corpus():
    """Every directed mixed graph on 3 nodes (cycles included), every pair and conditioning set: the real function
    natively against the concrete reference (agreement on acyclic graphs, symmetry and adjacency on all)."""
    U = universe(3)
    dpairs = [(u, v) for u in U for v in U if u != v]
    bpairs = list(itt.combinations(U, 2))
    bad, cnt = [], 0
    for dm in range(1 << len(dpairs)):
        di = [p for i, p in enumerate(dpairs) if dm >> i & 1]
        acyclic = _acyclic3(U, di)
        for bm in range(1 << len(bpairs)):
            bi = [p for i, p in enumerate(bpairs) if bm >> i & 1]
            for a, b in itt.combinations(U, 2):
                rest = [w for w in U if w not in (a, b)]
                for k in range(len(rest) + 1):
                    for C in itt.combinations(rest, k):
                        cnt += 1
                        r = native_case(U, di, bi, a, b, list(C), acyclic)
                        if r["bad"] and not r["d11"] and len(bad) < 5:
                            bad.append(r)
    return cnt, bad


def native_random(n4: int, n5: int):
    """Pseudo-random directed mixed graphs on 4 and 5 nodes (about half of them acyclic), every pair and conditioning
    set, natively against the concrete reference.  Not solver-decided: it keeps the check able to *show* a violation on
    a tree whose source the interpreter cannot encode (then run with a larger sample), and validates the translation on
    graphs larger than the exhaustive 3-node corpus otherwise."""
    import random

    rng = random.Random(1000 + seed())
    bad, cnt = [], 0
    for n, count in ((4, n4), (5, n5)):
        U = universe(n)
        for k in range(count):
            order = U[:]
            rng.shuffle(order)
            acyclic_wanted = k % 2 == 0
            pd, pb = rng.choice((0.25, 0.4)), rng.choice((0.15, 0.3))
            di = []
            for i, u in enumerate(order):
                for j, v in enumerate(order):
                    if u != v and (i < j or not acyclic_wanted) and rng.random() < (pd if i < j else pd / 2):
                        di.append((u, v))
            bi = [p for p in itt.combinations(U, 2) if rng.random() < pb]
            acyclic = _acyclic3(U, di)
            for a, b in itt.combinations(U, 2):
                rest = [w for w in U if w not in (a, b)]
                for r_ in range(len(rest) + 1):
                    for C in itt.combinations(rest, r_):
                        cnt += 1
                        r = native_case(U, di, bi, a, b, list(C), acyclic)
                        if r["bad"] and not r["d11"] and len(bad) < 5:
                            bad.append(r)
    return cnt, bad


def _acyclic3(nodes, di):
    left = set(nodes)
    while left:
        free = [n for n in left if not any(v == n and u in left for u, v in di)]
        if not free:
            return False
        left -= set(free)
    return True


def run() -> int:
    t = tier()
    timeout_ms = 120000 if t == "quick" else 600000
    rep = Report(PROP, "model_checking")
    rep.functions = [
        "y0/algorithm/separation/sigma_separation.py: are_sigma_separated, is_z_sigma_open, _triple_has_correct_form, _triple_helper, is_collider, is_non_collider_left_chain/right_chain/fork, _has_either_edge, _only_directed_edge, get_equivalence_classes (AST of the current source)",
        "y0/graph.py: disorient, ancestors_inclusive, descendants_inclusive (AST)",
    ]
    rep.stubs = ["networkx models as in C14; nx.all_simple_paths = every simple path of the complete graph on the universe, guarded by its edges; more_itertools.triplewise native on concrete paths"]
    jobs = []
    Ns = [4] if t == "quick" else [4, 5]
    for N in Ns:
        for a_i, b_i in itt.combinations(range(N), 2):
            for Cmask in range(1 << (N - 2)):
                if N == 5 and not (a_i == 0 and b_i in (1, 2)):
                    continue
                jobs.append((N, a_i, b_i, Cmask, True, timeout_ms))
                jobs.append((N, a_i, b_i, Cmask, False, timeout_ms))
    # the single N = 5 query that contains the first disagreement (collider opened by a 2-step descendant)
    if t == "quick":
        jobs.append((5, 0, 1, 0b100, True, timeout_ms))
    rep.bounds = {"universe_nodes": Ns + ([5] if t == "quick" else []), "graphs": "acyclic family: every ADMG on the universe (ranks); cyclic family: every directed mixed graph incl. cycles; all nodes present", "pairs": "N=4: all unordered pairs (both orders are compared inside each query); N=5: pairs (V0,V1),(V0,V2)", "conditioning_sets": "all subsets of the other nodes (quick N=5: only {V4})", "solver_timeout_ms": timeout_ms}
    rep.assumptions = ["agreement clause: specification = m-separation of C04; symmetry and adjacency clauses need no specification", "a disagreement is attributed to the known finding D11 only if a one-step look-ahead for conditioned children of colliders would also call the pair separated (replayed natively); the solver is re-asked (blocking clauses) for a counterexample that is not explained this way"]
    rep.rule = "one query per (N, a, b, C, acyclic?): all graphs on the universe; non-trivial = both verdicts are reachable (vacuity twins)"
    states = 0
    for job, st, r in pmap(work, jobs):
        if st != "ok":
            rep.harness_errors.append(short(r, 800))
            continue
        rep.cases += 1
        key = f"N={r['N']} {'ADMG' if r['acyclic'] else 'cyclic'} {r['a']},{r['b']} | {','.join(r['C'])}"
        if r.get("status") == "unsupported":
            rep.inconclusive += 1
            rep.harness_errors.append(f"{key}: encoding cannot be built on this tree: {r['why']}")
            continue
        rep.obligations += 1
        rep.solver_s += r["solve_s"]
        states += r["nvars"]
        if r["twin"] == "sat":
            rep.nontrivial.add(key)
        if r["verdict"] == "unsat":
            rep.discharged += 1
        elif r["verdict"] == "unknown":
            rep.inconclusive += 1
            rep.inconclusive_samples.append(key)
        else:
            rep.refuted += 1
            cex = r["cex"]
            if cex["bad"]:
                what = f"are_sigma_separated({cex['a']}, {cex['b']} | {cex['C']}) on nodes={cex['nodes']} di={cex['di']} bi={cex['bi']}: {cex['observed']}"
                rep.add_violation(Violation(PROP, [key] + ([D11_KEY] if cex["d11"] else []), what, {"property": PROP, **cex}))
            else:
                rep.harness_errors.append(f"{key}: solver counterexample did not reproduce natively: {cex}")
        if len(rep.samples) < 8:
            rep.add_sample({"query": key, "verdict": r["verdict"], "encode_s": round(r["encode_s"], 2), "solve_s": round(r["solve_s"], 2)})
    cnt, bad = native_corpus()
    unsupported = any("encoding cannot be built" in h for h in rep.harness_errors)
    cnt2, bad2 = native_random(*((400, 300) if unsupported else (60, 40)))
    cnt += cnt2
    rep.extra["native_random_graphs"] = {"queries": cnt2, "note": "pseudo-random 4/5-node graphs, not solver-decided" + ("; enlarged because the encoding could not be built on this tree" if unsupported else "")}
    for b in bad + bad2:
        what = f"are_sigma_separated({b['a']}, {b['b']} | {b['C']}) on nodes={b['nodes']} di={b['di']} bi={b['bi']}: {b['observed']} (native validation corpus)"
        rep.add_violation(Violation(PROP, [f"native {b['a']} {b['b']} {b['C']}"], what, {"property": PROP, **b}))
    rep.extra.update({"states": max(states, 1), "transitions": max(rep.obligations, 1), "traces_validated_against_impl": cnt})
    from .. import history_runs

    history_runs.run(rep, PROP)
    return rep.finish()


def replay(payload: dict) -> int:
    if payload.get("kind") == "history":
        from .. import history_runs

        return history_runs.replay(PROP, payload)
    from y0.dsl import Variable as V

    r = native_case([V(n) for n in payload["nodes"]], [(V(u), V(v)) for u, v in payload["di"]], [(V(u), V(v)) for u, v in payload["bi"]], V(payload["a"]), V(payload["b"]), [V(c) for c in payload["C"]], payload["acyclic"])
    print(r)
    print("reproduced" if r["bad"] else "not reproduced")
    return 1 if r["bad"] else 0

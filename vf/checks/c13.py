"""C13 — DSL operators and rewrite helpers are identities of probability calculus (SEM / FreeDist).

Every operation is run natively on the family; its result is compared by z3 with a reference
expression built from raw constructors whose denotation *is* the mathematical operation.
"""

from __future__ import annotations

import itertools as itt
import warnings

from ..common import Report, Violation, pmap, seed, short, tier
from ..exprs import RANGES, child_parent_names, from_json, leaves, level2, names_of, to_json, var_from_json, var_to_json
from ..sem.denote import free_names
from ..sem.exprcheck import compare, exact_differ
from ..sem.harness import hashseed, params_from_json

PROP = "C13"
BASE_NAMES = {"A", "B", "C"}


def reps():
    """Representative operands: every node type, several shapes each."""
    from y0.dsl import PP, A, B, C, Fraction, One, P, Pi1, Product, Q, Sum, Variable, X, Zero

    L = leaves()
    fs = frozenset
    extra = [
        Product((P(A | B), P(B))),
        Product((P(B), P(A | B))),
        Product((PP[Pi1](A | B), P(B))),
        Product((P(A | B), P(B | C), P(C))),
        Product((Sum(P(A, B), fs([A])), P(C))),
        Sum(P(A, B), fs([A])),
        Sum(P(A, B, C), fs([A, C])),
        Sum(Product((P(A | B), P(B))), fs([B])),
        Sum(P[X](A | B), fs([A])),
        Sum(Sum(P(A, B, C), fs([A])), fs([B])),
        Sum(Fraction(P(A, B), P(B)), fs([A])),
        Sum(PP[Pi1](A, B), fs([B])),
        Fraction(P(A, B), P(B)),
        Fraction(P(A), One()),
        Fraction(One(), P(A)),
        Fraction(Product((P(A | B), P(B))), Product((P(B), P(C)))),
        Fraction(Sum(P(A, B), fs([A])), P(B)),
        Fraction(P(A, B), Sum(P(A, B), fs([A]))),
        Fraction(Fraction(P(A, B), P(B)), P(C)),
        Fraction(P(C), Fraction(P(A, B), P(B))),
        Fraction(Zero(), P(A)),
        Product((P(A), P(A))),
        Fraction(Product((P(A), P(A), P(B))), P(C)),
        Fraction(P(A), Product((P(A), P(A), P(B)))),
        Q[A](B),
        Q[A, B](C),
        Q[C](A, B),
        Product((Q[A](B), P(B))),
    ]
    return L + extra


def ref_mul(a, b):
    from y0.dsl import Product

    return Product((a, b))


def ref_div(a, b):
    from y0.dsl import Fraction

    return Fraction(a, b)


def ref_sum(e, names):
    from y0.dsl import Sum, Variable

    return Sum(e, frozenset(Variable(n) for n in names)) if names else e


def run_op(item):
    """Returns (description, result expr, reference expr) or raises."""
    from y0.dsl import Fraction, Probability, Sum, Variable, Zero
    from y0.mutate import bayes_expand, chain_expand, fraction_expand
    from y0.mutate.contract import contract, recursive_contract

    op = item["op"]
    a = from_json(item["a"])
    if op == "mul":
        b = from_json(item["b"])
        return f"({a}) * ({b})", a * b, ref_mul(a, b)
    if op == "div":
        b = from_json(item["b"])
        return f"({a}) / ({b})", a / b, ref_div(a, b)
    if op == "marginalize":
        r = item["r"]
        return f"({a}).marginalize({r})", a.marginalize([Variable(n) for n in r]), ref_sum(a, r)
    if op == "conditional":
        r = item["r"]
        comp = sorted(free_cp_names(a) - set(r))
        return f"({a}).conditional({r})", a.conditional([Variable(n) for n in r]), ref_div(a, ref_sum(a, comp))
    if op == "fraction_simplify":
        return f"({a}).simplify()", a.simplify(), a
    if op == "sum_simplify":
        return f"({a}).simplify()", a.simplify(), a
    if op == "chain_expand":
        o = item["ordering"]
        res = chain_expand(a, reorder=o is not None, ordering=None if o in (None, "default") else [var_from_json(v) for v in o])
        return f"chain_expand({a}, ordering={o})", res, a
    if op == "fraction_expand":
        return f"fraction_expand({a})", fraction_expand(a), a
    if op == "bayes_expand":
        with warnings.catch_warnings():
            warnings.simplefilter("ignore")
            return f"bayes_expand({a})", bayes_expand(a), a
    if op == "contract":
        return f"contract({a})", contract(a), a
    if op == "recursive_contract":
        return f"recursive_contract({a})", recursive_contract(a), a
    raise ValueError(op)


def free_cp_names(e, bound=frozenset()) -> set:
    """Unmarked, unbound child/parent names (the variables an expression is a distribution/function of);
    intervention subscripts are parameters and are not included."""
    from y0.dsl import Fraction, Probability, Product, QFactor, Sum

    if isinstance(e, Probability):
        return {v.name for v in itt.chain(e.children, e.parents) if v.star is None and v.name not in bound}
    if isinstance(e, Product):
        return set().union(*[free_cp_names(f, bound) for f in e.expressions])
    if isinstance(e, Fraction):
        return free_cp_names(e.numerator, bound) | free_cp_names(e.denominator, bound)
    if isinstance(e, Sum):
        return free_cp_names(e.expression, bound | {r.name for r in e.ranges})
    if isinstance(e, QFactor):
        return {v.name for v in e.domain if v.name not in bound}
    return set()


D5_KEY = "conditional:normaliser-sums-over-bound-or-subscript-names"


def d5_signature(a, r, ref) -> bool:
    """Is a wrong conditional() fully explained by the known defect D5?

    True iff the operand is not a plain Probability, the set y0 sums over (every name yielded by
    _iter_variables, minus R) differs from the free child/parent names minus R, and normalising the
    same operand over the proper complement is solver-equal to the reference.
    """
    from y0.dsl import Probability, Variable

    if isinstance(a, Probability):
        return False
    y0_comp = {c.get_base().name for c in a._iter_variables()} - set(r)
    proper = free_cp_names(a) - set(r)
    if y0_comp == proper:
        return False
    fixed = a.normalize_marginalize([Variable(n) for n in sorted(proper)]) if proper else a / a
    chk = compare(fixed, ref, names_of(fixed) | names_of(ref) | BASE_NAMES)
    return chk["verdict"] == "unsat"


def single_child_only(e) -> bool:
    from y0.dsl import One, Probability, Product

    if isinstance(e, Probability):
        return len(e.children) == 1
    if isinstance(e, Product):
        return all(single_child_only(f) for f in e.expressions)
    return isinstance(e, One)


def check_item(item):
    rec = {"item": item, "op": item["op"]}
    # operands must themselves be meaningful (no structurally zero denominators, well scoped)
    for k in ("a", "b"):
        if k in item:
            x = from_json(item[k])
            pre = compare(x, x, names_of(x) | BASE_NAMES, precheck_only=True)
            if pre["verdict"] == "skip":
                rec["status"] = "skip"
                rec["why"] = pre["why"]
                return rec
    if item["op"] == "div":
        b = from_json(item["b"])
        z = compare(b, ref_mul(b, b), names_of(b) | BASE_NAMES, precheck_only=True)
        from y0.dsl import Zero

        if isinstance(b, Zero) or _is_zero_valued(b):
            rec["status"] = "skip"
            rec["why"] = "division by a zero-valued expression"
            return rec
    try:
        desc, res, ref = run_op(item)
    except ZeroDivisionError as ex:
        rec["status"] = "skip"
        rec["why"] = "ZeroDivisionError from the operation on a zero operand"
        return rec
    except Exception as ex:  # noqa: BLE001
        rec["status"] = "exception"
        rec["exc"] = f"{type(ex).__name__}: {short(ex, 120)}"
        rec["desc"] = f"{item['op']}({from_json(item['a'])}{', ' + str(from_json(item['b'])) if 'b' in item else ''}{', ' + str(item.get('r', item.get('ordering', ''))) if ('r' in item or 'ordering' in item) else ''})"
        return rec
    rec["desc"] = desc
    rec["res"] = str(res)
    if item["op"] == "chain_expand" and not single_child_only(res):
        rec["status"] = "postcondition"
        return rec
    r = compare(res, ref, names_of(res) | names_of(ref) | BASE_NAMES)
    if r["verdict"] == "sat" and item["op"] == "conditional":
        rec["d5"] = d5_signature(from_json(item["a"]), item["r"], ref)
    rec["status"] = r["verdict"]
    rec["secs"] = r.get("secs", 0.0)
    for k in ("why", "env", "v1", "v2", "params"):
        if k in r:
            rec[k] = r[k]
    return rec


def _is_zero_valued(e) -> bool:
    from y0.dsl import Fraction, Product, Sum, Zero

    if isinstance(e, Zero):
        return True
    if isinstance(e, Product):
        return any(_is_zero_valued(f) for f in e.expressions)
    if isinstance(e, Fraction):
        return _is_zero_valued(e.numerator)
    if isinstance(e, Sum):
        return _is_zero_valued(e.expression)
    return False


def work(chunk):
    return [check_item(it) for it in chunk]


def cw_items():
    """Operands with terms that mix worlds (two counterfactual versions of one variable, or a counterfactual and a
    factual variable of the same name, side by side): the helpers that split or match variables must do so by the
    variable object, not by its name.  Decided over one free joint of the counterfactual variables (freedist.py)."""
    from y0.dsl import A, Distribution, Fraction, P, Probability, Variable, X, Y, Z

    def raw(children, parents=()):
        return Probability(Distribution(children=tuple(children), parents=tuple(parents)))

    yx, yx1, za = Y @ -X, Y @ +X, Z @ -A
    joints = [raw((yx, Y, Z)), raw((yx, yx1)), raw((yx, yx1, Z)), raw((Y, yx)), raw((yx, za, Y)), raw((Z, yx1, yx)), raw((yx, za, A))]
    conds = [raw((yx,), (Y,)), raw((yx, Z), (Y,)), raw((Z,), (yx, Y)), raw((yx, Y), (Z @ -X,)), raw((Y,), (yx, yx1)), raw((yx,), (za, A)), raw((za, A), (yx,))]
    items = []
    for j in joints:
        jj = to_json(j)
        ch = list(j.children)
        for k in range(1, len(ch)):
            for sub in itt.combinations(ch, k):
                for den in {raw(sub), raw(tuple(reversed(sub)))}:
                    f = to_json(Fraction(j, den))
                    items.append({"op": "contract", "a": f})
                    items.append({"op": "recursive_contract", "a": f})
                    items.append({"op": "fraction_simplify", "a": f})
    plain = [raw((Y,)), raw((Z,), (Y,)), raw((Y, Z))]
    for p in joints + conds:
        pj = to_json(p)
        items.append({"op": "chain_expand", "a": pj, "ordering": None})
        for o in itt.permutations(list(p.children) + list(p.parents)):
            items.append({"op": "chain_expand", "a": pj, "ordering": [var_to_json(v) for v in o]})
        items.append({"op": "fraction_expand", "a": pj})
        names = [v.name for v in itt.chain(p.children, p.parents)]
        if len(set(names)) == len(names):
            # operations that introduce a Sum: only when no name occurs twice (a Sum ranges over a *name*, so it cannot
            # marginalise Y_x and leave Y alone - a representation limit of the DSL, outside the claim)
            items.append({"op": "bayes_expand", "a": pj})
            for r in (["Y"], ["Z"], ["Y", "Z"]):
                items.append({"op": "marginalize", "a": pj, "r": r})
        for q in joints[:3] + conds[:2] + plain:
            items.append({"op": "mul", "a": pj, "b": to_json(q)})
            items.append({"op": "div", "a": pj, "b": to_json(q)})
    return items


def build_items(t):
    from y0.dsl import Fraction, Probability, Sum

    R = reps()
    RJ = [to_json(e) for e in R]
    items = []
    for a, b in itt.product(RJ, RJ):
        items.append({"op": "mul", "a": a, "b": b})
        items.append({"op": "div", "a": a, "b": b})
    subsets = [[], ["A"], ["B"], ["C"], ["A", "B"], ["A", "C"], ["B", "C"], ["A", "B", "C"], ["X"]]
    for e, ej in zip(R, RJ):
        for r in subsets:
            if r:
                items.append({"op": "marginalize", "a": ej, "r": r})
            items.append({"op": "conditional", "a": ej, "r": r})
    L = leaves()
    L2 = level2(L)
    stride = 1 if t == "thorough" else 3
    k = 0
    for kind, e in L2 + [("rep", x) for x in R]:
        k += 1
        ej = to_json(e)
        # the simplifiers are cheap: every depth-2 sum / fraction in both tiers (a strided quick tier missed a seeded
        # change of Sum.simplify that needs a conditional with two children)
        if isinstance(e, Fraction):
            items.append({"op": "fraction_simplify", "a": ej})
        if isinstance(e, Sum):
            items.append({"op": "sum_simplify", "a": ej})
        if k % stride != seed() % stride:
            continue
        if isinstance(e, Fraction):
            items.append({"op": "contract", "a": ej})
        items.append({"op": "recursive_contract", "a": ej})
    # nested fractions inside sums/products for recursive_contract and simplify
    for kind, e in L2:
        if kind == "frac":
            k += 1
            if k % (stride * 5) != seed() % (stride * 5):
                continue
            for r in RANGES[:2]:
                items.append({"op": "recursive_contract", "a": to_json(ref_sum(e, r))})
            items.append({"op": "recursive_contract", "a": to_json(ref_mul(e, L[0]))})
            items.append({"op": "fraction_simplify", "a": to_json(ref_div(ref_mul(e.numerator, L[1]), ref_mul(L[1], e.denominator)))})
    for p in L:
        if not isinstance(p, Probability):
            continue
        pj = to_json(p)
        items.append({"op": "chain_expand", "a": pj, "ordering": None})
        items.append({"op": "chain_expand", "a": pj, "ordering": "default"})
        for o in itt.permutations(list(p.children) + list(p.parents)):
            items.append({"op": "chain_expand", "a": pj, "ordering": [var_to_json(v) for v in o]})
        if p.parents:
            # an ordering only has to cover the children: orderings that list no parent, or only some of them
            for k in range(len(p.parents)):
                for ps in itt.combinations(p.parents, k):
                    for o in itt.permutations(list(p.children) + list(ps)):
                        items.append({"op": "chain_expand", "a": pj, "ordering": [var_to_json(v) for v in o]})
        items.append({"op": "fraction_expand", "a": pj})
        items.append({"op": "bayes_expand", "a": pj})
    items += cw_items()
    return items


def run() -> int:
    t = tier()
    rep = Report(PROP, "translation_validation")
    rep.functions = [
        "Expression.__mul__/__truediv__ of Probability, Product, Sum, Fraction, One, Zero, QFactor (all type pairs)",
        "Expression.marginalize / conditional / normalize_marginalize, Probability.conditional",
        "Fraction.simplify / _simplify_parts, Sum.simplify",
        "y0.mutate.chain.chain_expand / fraction_expand / bayes_expand; y0.mutate.contract.contract / recursive_contract; mutate.utils.Applier",
    ]
    rep.bounds = {
        "operands": "55 representative operands (27 leaves incl. value-marked, interventional, population-tagged, One, Zero; products, sums, nested sums, fractions incl. nested and constant ones and ones with a repeated factor, Q-factors): all ordered pairs for * and /; all range sets over A,B,C (+X) for marginalize/conditional; every depth-2 fraction/sum of the C10 family for simplify; for contract (quick: every 3rd); every probability leaf with every ordering of its variables, and with every ordering that covers the children and only some (or none) of the parents, for chain_expand",
        "cross_world_operands": "7 joints and 7 conditionals that mix worlds (Y_x next to Y, Y_x next to Y_x', with a third variable): contract / recursive_contract / Fraction.simplify of joint over every sub-joint, chain/fraction/Bayes expansion with every ordering, marginalisation and Bayes expansion only where no name occurs twice (a Sum ranges over a name), * and / among them; decided over one free positive joint of the counterfactual variables (distinct counterfactual variables = distinct random variables, no structural axioms)",
        "distributions": "free positive joints per (population, intervention assignment), binary variables; Q-factors as uninterpreted positive functions; all value assignments",
        "PYTHONHASHSEED": hashseed(),
    }
    rep.assumptions = [
        "reference semantics: a*b = product of denotations, a/b = quotient, marginalize(R) = Sum over R (strict), conditional(R) = e / Sum over (free variables of e minus R) of e",
        "operands with a structurally zero denominator or ill-scoped marks are skipped; dividing by a zero-valued expression is skipped",
    ]
    rep.rule = "cases = one operation applied to concrete operands; non-trivial = the operation returned something and the solver compared it with the reference (distinct by printed operation)"
    items = build_items(t)
    chunks = [items[i : i + 100] for i in range(0, len(items), 100)]
    for chunk, st, res in pmap(work, chunks):
        if st != "ok":
            rep.harness_errors.append(short(res, 600))
            continue
        for r in res:
            rep.cases += 1
            rep.count(r["op"] + ":" + r["status"])
            if r["status"] == "skip":
                continue
            key = r["desc"]
            payload = {"property": PROP, "item": r["item"], "hashseed": hashseed(), "desc": r["desc"]}
            if r["status"] == "exception":
                payload["kind"] = "exception"
                payload["exc"] = r["exc"]
                rep.add_violation(Violation(PROP, [key, f"exception:{r['op']}:{r['exc'].split(':')[0]}"], f"{key} raised {r['exc']}", payload))
                continue
            if r["status"] == "postcondition":
                payload["kind"] = "postcondition"
                rep.add_violation(Violation(PROP, [key], f"{key} = {r['res']} has a factor with several children", payload))
                continue
            rep.obligations += 1
            rep.solver_s += r["secs"]
            rep.nontrivial.add(key)
            if r["status"] == "unsat":
                rep.discharged += 1
                if len(rep.samples) < 8 and rep.cases % 211 == 0:
                    rep.add_sample({"operation": r["desc"], "result": r["res"], "verdict": "unsat"})
            elif r["status"] == "unknown":
                rep.inconclusive += 1
                rep.inconclusive_samples.append(key)
            elif r["status"] == "noreplay":
                rep.harness_errors.append(f"sat model did not replay: {key}")
            elif r["status"] == "sat":
                rep.refuted += 1
                payload.update({"kind": "meaning", "env": r["env"], "params": r["params"], "result_seen": r["res"], "v_result": r["v1"], "v_reference": r["v2"]})
                what = f"{key} = {short(r['res'], 120)} evaluates to {r['v1']}, the mathematical operation to {r['v2']} at {r['env']}"
                rep.add_violation(Violation(PROP, [key] + ([D5_KEY] if r.get("d5") else []), what, payload))
    if not rep.samples:
        rep.add_sample({"note": "no sample drawn"})
    return rep.finish()


def replay(payload: dict) -> int:
    item = payload["item"]
    try:
        desc, res, ref = run_op(item)
    except Exception as ex:  # noqa: BLE001
        print(f"{payload['desc']} raised {type(ex).__name__}: {ex}")
        return 1 if payload["kind"] == "exception" else 0
    print(desc, "=", res)
    if payload["kind"] == "exception":
        print("not reproduced")
        return 0
    if payload["kind"] == "postcondition":
        bad = not single_child_only(res)
        print("reproduced" if bad else "not reproduced")
        return 1 if bad else 0
    hit = exact_differ(res, ref, names_of(res) | names_of(ref) | BASE_NAMES, params_from_json(payload["params"]), [payload["env"]])
    if hit is None:
        print("values agree on the recorded distribution: not reproduced")
        return 0
    print(f"result = {hit['v1']}, reference = {hit['v2']} at {hit['env']}: reproduced")
    return 1

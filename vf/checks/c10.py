"""C10 — canonicalisation never changes what an expression means (engine SEM / FreeDist)."""

from __future__ import annotations

import itertools as itt

from ..common import Report, Violation, pmap, seed, short, tier
from ..exprs import child_parent_names, from_json, leaves, level2, level3, names_of, to_json
from ..sem.exprcheck import compare, exact_differ
from ..sem.harness import hashseed, params_from_json

PROP = "C10"


def orderings(e, mode):
    from y0.dsl import Variable

    names = sorted(child_parent_names(e))
    if mode == "all":
        perms = list(itt.permutations(names))
    else:
        perms = [tuple(names), tuple(reversed(names))] if len(names) > 1 else [tuple(names)]
    out = [[Variable(n) for n in p] for p in perms]
    # the default ordering (None: sort order of the names) and an ordering that covers more than the expression needs
    out.append(None)
    out.append([Variable("Z9")] + [Variable(n) for n in reversed(names)] + [Variable("A0")])
    return out


def check_expr(item):
    kind, ej, mode = item
    from y0.mutate import canonicalize

    e = from_json(ej)
    out = []
    pre = compare(e, e, names_of(e) | {"A", "B", "C"}, precheck_only=True)
    if pre["verdict"] == "skip":  # ill-scoped input or a structurally zero denominator: outside the family
        return [{"kind": kind, "e": ej, "s": str(e), "ordering": [], "status": "skip", "why": pre["why"]}]
    for o in orderings(e, mode):
        rec = {"kind": kind, "e": ej, "s": str(e), "ordering": [v.name for v in o] if o is not None else ["<default>"]}
        try:
            c = canonicalize(e, o)
        except Exception as ex:  # noqa: BLE001
            rec["status"] = "exception"
            rec["exc"] = f"{type(ex).__name__}: {short(ex, 120)}"
            out.append(rec)
            continue
        rec["canon"] = str(c)
        r = compare(e, c, names_of(e) | names_of(c) | {"A", "B", "C"})
        rec["status"] = r["verdict"]
        rec["secs"] = r.get("secs", 0.0)
        for k in ("why", "env", "v1", "v2", "params"):
            if k in r:
                rec[k] = r[k]
        rec["changed"] = str(c) != str(e)
        out.append(rec)
    return out


def work(chunk):
    res = []
    for item in chunk:
        res.extend(check_expr(item))
    return res


def build_items(t):
    L = leaves()
    L2 = level2(L)
    items = [("leaf", to_json(e), "all") for e in L]
    items += [(k, to_json(e), "all") for k, e in L2]
    if t == "quick":
        stride = 12
        items += [(k, to_json(e), "two") for k, e in level3(L, L2, stride=stride, offset=seed())]
    else:
        items += [(k, to_json(e), "two") for k, e in level3(L, L2, stride=2, offset=seed())]
    items += [("mult", to_json(e), "two") for e in multiplicity_family()]
    return items


def multiplicity_family():
    """Fractions whose numerator and denominator share factors with DIFFERENT multiplicities, raw and through the
    operators, alone, nested, and under a Sum (both tiers, not strided: a seeded canonicaliser change that cancels
    by membership instead of by multiplicity needs exactly this shape, which the strided depth-3 family skipped)."""
    from y0.dsl import PP, A, B, C, Fraction, P, Pi1, Product, Sum, X

    S = [P(A), P(A, B), P(B | A), P[X](A), PP[Pi1](A)]
    out = []
    for a in S:
        for b in S:
            if a == b:
                continue
            cases = [
                (Product((a, a)), a),
                (Product((a, a, b)), a),
                (Product((a, b)), Product((a, a))),
                (Product((a, a)), Product((a, b))),
                (Product((a, a, a)), Product((a, a))),
                (a, Product((a, a))),
            ]
            for n, d in cases:
                out.append(Fraction(n, d))
                out.append(n / d)
                out.append(Sum(Fraction(n, d), frozenset({A})))
                out.append(Fraction(Fraction(n, d), b))
                out.append(Product((Fraction(n, d), P(C))))
                # the repeated factor also as the outer divisor / multiplier of a nested fraction, raw and operator-built
                out.append(Fraction(Fraction(n, b), a))
                out.append(Fraction(Fraction(n, d), a))
                out.append(Fraction(n, Fraction(d, a)))
                out.append(Fraction(a, Fraction(n, d)))
                out.append((n / b) / a)
                out.append(n / (d / a))
                out.append((n / d) * a)
                out.append((n / d) / (a / b))
                out.append((n * b) / (a * d))
    return out


def run() -> int:
    t = tier()
    rep = Report(PROP, "translation_validation")
    rep.functions = [
        "y0.mutate.canonicalize / Canonicalizer.canonicalize (run natively on every tree of the family)",
        "Sum.safe(simplify=True) / Sum.simplify, Product.safe, Expression.__truediv__, Fraction.__mul__/__truediv__ (reached through it)",
        "input and output Expression -> z3 polynomial terms over free positive distributions (vf/sem/freedist.py)",
    ]
    rep.bounds = {
        "expressions": "raw-constructor trees of depth <=3 over names A,B,C (+ intervention X, population tag pi1): 27 leaves (joint, conditional, value-marked, interventional, population-tagged, One, Zero), all products/fractions of two leaves, all sums over 1-2 names; depth 3 = op(depth-2 tree, leaf) in both positions, 3-factor products, sums (quick: every 12th, thorough: every 2nd)",
        "multiplicity": "fractions whose numerator and denominator share a factor with different multiplicities (5 kinds of factors; raw and operator-built; alone, nested in a fraction - also with the repeated factor as the outer divisor or multiplier -, in a product, under a Sum): all, in both tiers",
        "orderings": "depth<=2: all permutations of the child/parent names; depth 3: alphabetical and reversed; always also the default (ordering=None) and one ordering with two extra variables",
        "distributions": "every (population, intervention assignment) has its own free positive joint over binary variables (z3 Reals); all value assignments of the free variables in one query",
        "PYTHONHASHSEED": hashseed(),
    }
    rep.assumptions = [
        "semantics of expressions as in DESIGN.md §2 (strict reading of Sum: a sum over a variable that does not occur multiplies by |dom|)",
        "ill-scoped inputs (a value-marked variable under a Sum over the same name) and inputs with a structurally zero denominator are skipped and counted",
    ]
    rep.rule = "cases = (expression, ordering); non-trivial = canonicalize returned an object whose printed form differs from the input's; distinct by (printed input, ordering)"
    items = build_items(t)
    chunks = [items[i : i + 200] for i in range(0, len(items), 200)]
    for chunk, st, res in pmap(work, chunks):
        if st != "ok":
            rep.harness_errors.append(short(res, 600))
            continue
        for r in res:
            rep.cases += 1
            rep.count(r["status"])
            key = f"canonicalize({r['s']}, {','.join(r['ordering'])})"
            if r["status"] == "skip":
                continue
            if r["status"] == "exception":
                rep.add_violation(Violation(PROP, [key, "exception:" + r["exc"].split(":")[0] + ":" + r["kind"]], f"{key} raised {r['exc']}", {"property": PROP, "kind": "exception", "expr": r["e"], "ordering": r["ordering"], "exc": r["exc"], "hashseed": hashseed()}))
                continue
            rep.obligations += 1
            rep.solver_s += r["secs"]
            if r["changed"]:
                rep.nontrivial.add(key)
            if r["status"] == "unsat":
                rep.discharged += 1
                if r["changed"] and len(rep.samples) < 8 and rep.cases % 97 == 0:
                    rep.add_sample({"input": r["s"], "ordering": r["ordering"], "canonical": r["canon"], "verdict": "unsat"})
            elif r["status"] == "unknown":
                rep.inconclusive += 1
                rep.inconclusive_samples.append(key)
            elif r["status"] == "noreplay":
                rep.harness_errors.append(f"sat model did not replay: {key}")
            elif r["status"] == "sat":
                rep.refuted += 1
                payload = {"property": PROP, "kind": "meaning", "expr": r["e"], "ordering": r["ordering"], "env": r["env"], "params": r["params"], "input": r["s"], "canon_seen": r["canon"], "v_in": r["v1"], "v_canon": r["v2"], "hashseed": hashseed()}
                what = f"{key} = {r['canon']}: input evaluates to {r['v1']} but canonical form to {r['v2']} at {r['env']}"
                rep.add_violation(Violation(PROP, [key, "shape:" + shape_key(r["s"], r["canon"])], what, payload))
    if not rep.samples:
        rep.add_sample({"note": "no changed case sampled"})
    return rep.finish()


def shape_key(s_in: str, s_out: str) -> str:
    """Call-site style key for known findings: which rewrite fired (coarse)."""
    if "Sum[" in s_in and "Sum[" not in s_out:
        return "sum-eliminated"
    if "Sum[" in s_in:
        return "sum-rewritten"
    return "other"


def replay(payload: dict) -> int:
    from y0.dsl import Variable
    from y0.mutate import canonicalize

    e = from_json(payload["expr"])
    o = [Variable(n) for n in payload["ordering"]] if payload["ordering"] != ["<default>"] else None
    print("input:", e, "ordering:", payload["ordering"])
    try:
        c = canonicalize(e, o)
    except Exception as ex:  # noqa: BLE001
        print(f"canonicalize raised {type(ex).__name__}: {ex}")
        return 1 if payload["kind"] == "exception" else 0
    print("canonical form now:", c)
    if payload["kind"] == "exception":
        print("not reproduced")
        return 0
    hit = exact_differ(e, c, names_of(e) | names_of(c) | {"A", "B", "C"}, params_from_json(payload["params"]), [payload["env"]])
    if hit is None:
        print("values agree on the recorded distribution: not reproduced")
        return 0
    print(f"input = {hit['v1']}, canonical = {hit['v2']} at {hit['env']}: reproduced")
    return 1

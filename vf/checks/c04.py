"""C04 — d-separation verdicts equal true m-separation in the mixed graph (engine RSI)."""

from __future__ import annotations

import itertools as itt
import time

import z3

from ..common import Report, Unsupported, Violation, pmap, seed, short, tier
from ..rsi.harness import SymInput, raise_guard, solve, universe
from ..rsi.interp import Interp, Judgement
from ..rsi.sym import SSet, band, biff, bnot, bor, guard_of, is_sym, lift

PROP = "C04"


# ------------------------------------------------------------------------- specification (symbolic)


def spec_an(inp, C):
    """v is an ancestor-or-self of a node of C."""
    U = inp.U
    cur = {v: (v in C) for v in U}
    for _ in range(len(U) - 1):
        cur = {v: bor(cur[v], *[band(inp.d[(v, w)], cur[w]) for w in U if w != v]) for v in U}
    return cur


def spec_connected(inp, a, b, C):
    """An active walk from a to b given C exists (Bayes-ball style reachability over (node, end mark));
    a bidirected edge is a latent common parent, i.e. an edge with arrowheads at both ends."""
    U = inp.U
    anC = spec_an(inp, C)
    inC = {v: (v in C) for v in U}
    head = {v: False for v in U}  # reached v through an edge with an arrowhead at v
    tail = {v: False for v in U}  # reached v through an edge with a tail at v
    for w in U:
        if w == a:
            continue
        head[w] = bor(inp.d[(a, w)], inp.b[frozenset((a, w))])
        tail[w] = inp.d[(w, a)]
    for _ in range(2 * len(U)):
        nh, nt = dict(head), dict(tail)
        for v in U:
            if v == a:
                continue
            # leaving v as a non-collider (v not in C): arrived by head and leave by a tail, or arrived by tail
            out_noncoll_tailstart = band(bnot(inC[v]), bor(head[v], tail[v]))  # leave through v -> w
            out_from_tail = band(bnot(inC[v]), tail[v])  # arrived by tail: may also leave through an arrowhead at v
            out_collider = band(anC[v], head[v])  # arrived by head, leave through an arrowhead at v
            for w in U:
                if w == v:
                    continue
                e_vw, e_wv, e_bi = inp.d[(v, w)], inp.d[(w, v)], inp.b[frozenset((v, w))]
                nh[w] = bor(nh[w], band(out_noncoll_tailstart, e_vw), band(bor(out_from_tail, out_collider), e_bi))
                nt[w] = bor(nt[w], band(bor(out_from_tail, out_collider), e_wv))
        head, tail = nh, nt
    return bor(head[b], tail[b])


# ------------------------------------------------------------------------- concrete reference (replay)


def c_connected(nodes, di, bi, a, b, C):
    C = set(C)
    an = set(C)
    while True:
        new = {u for u, v in di if v in an} - an
        if not new:
            break
        an |= new
    bis = {frozenset(e) for e in bi}
    start = set()
    for w in nodes:
        if w == a:
            continue
        if (a, w) in di or frozenset((a, w)) in bis:
            start.add((w, "h"))
        if (w, a) in di:
            start.add((w, "t"))
    seen, todo = set(start), list(start)
    while todo:
        v, m = todo.pop()
        if v == b:
            return True
        if v == a:
            continue
        nxt = set()
        for w in nodes:
            if w == v:
                continue
            vw, wv, bb = (v, w) in di, (w, v) in di, frozenset((v, w)) in bis
            if v not in C:  # non-collider moves
                if vw:
                    nxt.add((w, "h"))
                if m == "t":
                    if wv:
                        nxt.add((w, "t"))
                    if bb:
                        nxt.add((w, "h"))
            if m == "h" and v in an:  # collider moves
                if wv:
                    nxt.add((w, "t"))
                if bb:
                    nxt.add((w, "h"))
        for s in nxt - seen:
            seen.add(s)
            todo.append(s)
    return False


def native_case(nodes, di, bi, a, b, C, order=None):
    from y0.algorithm.conditional_independencies import are_d_separated
    from y0.graph import NxMixedGraph

    g = NxMixedGraph()
    for n in (order or nodes):
        g.add_node(n)
    for u, v in di:
        g.add_directed_edge(u, v)
    for u, v in bi:
        g.add_undirected_edge(u, v)
    rec = {"nodes": [n.name for n in nodes], "di": [[u.name, v.name] for u, v in di], "bi": [[u.name, v.name] for u, v in bi], "a": a.name, "b": b.name, "C": [c.name for c in C]}
    want = not c_connected(nodes, set(di), bi, a, b, C)
    rec["expected_separated"] = want
    try:
        j = are_d_separated(g, a, b, conditions=set(C))
        j2 = are_d_separated(g, b, a, conditions=list(reversed(list(C))) if C else None)  # None = no conditions
    except Exception as e:  # noqa: BLE001
        rec["observed"] = f"raised {type(e).__name__}: {short(e, 100)}"
        rec["bad"] = True
        return rec
    canon = j.left.name < j.right.name and j.conditions == tuple(sorted(set(C), key=str)) and j.is_canonical and {j.left, j.right} == {a, b}
    rec["observed"] = f"separated={bool(j)} reversed={bool(j2)} canonical={canon} record={j}"
    rec["bad"] = bool(j) != want or bool(j2) != bool(j) or not canon or j != j2
    return rec


# ------------------------------------------------------------------------- symbolic query


def work(job):
    N, a_i, b_i, Cmask, timeout_ms = job
    U = universe(N)
    a, b = U[a_i], U[b_i]
    rest = [v for v in U if v not in (a, b)]
    C = [v for i, v in enumerate(rest) if Cmask >> i & 1]
    out = {"N": N, "a": a.name, "b": b.name, "C": [c.name for c in C]}
    it = Interp(U)
    inp = SymInput(U, acyclic=True)
    cons = list(inp.wf) + [lift(inp.p[v]) for v in [a, b] + C]
    t0 = time.time()
    try:
        j1, r1 = it.call("are_d_separated", inp.mixed(), a, b, conditions=SSet({c: True for c in C}))
        j2, r2 = it.call("are_d_separated", inp.mixed(), b, a, conditions=list(reversed(C)))
    except Unsupported as e:
        out["status"] = "unsupported"
        out["why"] = str(e)
        return out
    out["encode_s"] = time.time() - t0
    if not isinstance(j1, Judgement):
        out["status"] = "unsupported"
        out["why"] = f"are_d_separated returned {type(j1).__name__}"
        return out
    sep1, sep2 = guard_of(j1.separated), guard_of(j2.separated)
    spec = bnot(spec_connected(inp, a, b, C))
    canon_ok = (
        str(j1.left) < str(j1.right)
        and {j1.left, j1.right} == {a, b}
        and tuple(j1.conditions) == tuple(sorted(C, key=str))
        and (j1.left, j1.right, tuple(j1.conditions)) == (j2.left, j2.right, tuple(j2.conditions))
    )
    is_canon = it.getattr(j1, "is_canonical")
    goal = bor(bnot(biff(sep1, spec)), bnot(biff(sep1, sep2)), raise_guard(r1 + r2), not canon_ok, bnot(guard_of(is_canon)))
    tw, _, _ = solve(cons, band(lift(spec), lift(inp.d[(a, b)]) if False else lift(spec)), timeout_ms)
    tw2, _, _ = solve(cons, bnot(spec), timeout_ms)
    out["twin"] = "sat" if (tw == "sat" and tw2 == "sat") else f"{tw}/{tw2}"
    verdict, model, dt = solve(cons, goal, timeout_ms)
    out["verdict"], out["solve_s"] = verdict, dt
    out["nvars"] = len(inp.d) + len(inp.b) + len(inp.p)
    if verdict == "sat":
        nodes, di, bi = inp.concrete(model)
        out["cex"] = native_case(nodes, di, bi, a, b, C)
    return out


def validate_native(n):
    """Every ADMG on n nodes (all present), every pair, every C, two insertion orders: real code vs reference."""
    U = universe(n)
    dpairs = list(itt.combinations(U, 2))
    bad, cnt = [], 0
    for perm in ([U, list(reversed(U))] if n > 1 else [U]):
        # directed edges follow the order `perm` (acyclic), so both label/topology alignments occur
        pairs = list(itt.combinations(perm, 2))
        for dm in range(1 << len(pairs)):
            di = [p for i, p in enumerate(pairs) if dm >> i & 1]
            for bm in range(1 << len(dpairs)):
                bi = [p for i, p in enumerate(dpairs) if bm >> i & 1]
                for a, b in itt.permutations(U, 2):
                    rest = [v for v in U if v not in (a, b)]
                    for k in range(len(rest) + 1):
                        for C in itt.combinations(rest, k):
                            cnt += 1
                            r = native_case(U, di, bi, a, b, list(C), order=perm)
                            if r["bad"] and len(bad) < 5:
                                bad.append(r)
    return cnt, bad


def native_random(n4: int, n5: int, n6: int):
    """Pseudo-random ADMGs on 4-6 nodes (shuffled insertion order), every ordered pair and conditioning set, natively
    against the reference.  Not solver-decided: it keeps the check able to *show* a violation on a tree whose source the
    interpreter cannot encode (then with a larger sample) and validates the translation beyond the 3-node corpus."""
    import random

    rng = random.Random(2000 + seed())
    bad, cnt = [], 0
    for n, count in ((4, n4), (5, n5), (6, n6)):
        U = universe(n)
        for _ in range(count):
            order = U[:]
            rng.shuffle(order)
            pd, pb = rng.choice((0.25, 0.45)), rng.choice((0.2, 0.35))
            di = [p for p in itt.combinations(order, 2) if rng.random() < pd]
            bi = [p for p in itt.combinations(U, 2) if rng.random() < pb]
            rng.shuffle(bi)
            for a, b in itt.permutations(U, 2):
                rest = [v for v in U if v not in (a, b)]
                for k in range(len(rest) + 1):
                    for C in itt.combinations(rest, k):
                        cnt += 1
                        r = native_case(U, di, bi, a, b, list(C), order=order)
                        if r["bad"] and len(bad) < 5:
                            bad.append(r)
    return cnt, bad


def vwork(n):
    return validate_native(n)


def run() -> int:
    t = tier()
    N = 4 if t == "quick" else 6
    timeout_ms = 120000 if t == "quick" else 600000
    rep = Report(PROP, "model_checking")
    rep.functions = [
        "y0/algorithm/conditional_independencies.py: are_d_separated (AST of the current source)",
        "y0/graph.py: ancestors_inclusive, subgraph, moralize, iter_moral_links, disorient, districts, get_markov_pillow and helpers (AST)",
        "y0/struct.py: DSeparationJudgement.create, is_canonical (AST)",
    ]
    rep.stubs = ["networkx models as in C14; nx.has_path on the symbolic undirected graph (raises NodeNotFound for absent endpoints)"]
    rep.bounds = {"universe_nodes": N, "graphs": f"every ADMG on (a subset of) {N} nodes: arbitrary directed edges made acyclic by symbolic integer ranks (labels not tied to the order), arbitrary bidirected edges", "pairs": "all ordered pairs (a, b) of distinct nodes", "conditioning_sets": "every subset of the other nodes (enumerated; the graph is symbolic)", "solver_timeout_ms": timeout_ms}
    rep.assumptions = [
        "specification: an active walk in the sense of m-separation (colliders need a descendant-or-self in C, non-colliders are outside C, bidirected edges have arrowheads at both ends), computed by a Bayes-ball style reachability that shares nothing with the moralisation algorithm",
        "a, b and C are nodes of the graph (documented precondition); insertion-order independence is checked only on the native validation corpus (two orders), not symbolically",
    ]
    rep.rule = "one query per (a, b, C): all ADMGs on the universe; states = Boolean graph variables summed over queries; non-trivial = both a separated and a connected graph exist for the query (vacuity twins)"
    jobs = []
    for a_i, b_i in itt.permutations(range(N), 2):
        for Cmask in range(1 << (N - 2)):
            if t == "thorough" and N >= 6 and not (a_i < 2 or b_i < 2):
                # at N = 6 restrict to pairs touching V0/V1 (the universe is symmetric under relabelling apart from str order)
                continue
            jobs.append((N, a_i, b_i, Cmask, timeout_ms))
    if t == "thorough":
        for a_i, b_i in itt.permutations(range(5), 2):
            for Cmask in range(1 << 3):
                jobs.append((5, a_i, b_i, Cmask, timeout_ms))
    states = 0
    for job, st, r in pmap(work, jobs):
        if st != "ok":
            rep.harness_errors.append(short(r, 800))
            continue
        rep.cases += 1
        key = f"N={r['N']} {r['a']} _||_ {r['b']} | {','.join(r['C'])}"
        if r.get("status") == "unsupported":
            rep.inconclusive += 1
            rep.harness_errors.append(f"{key}: encoding cannot be built on this tree: {r['why']}")
            continue
        rep.obligations += 1
        rep.solver_s += r["solve_s"]
        states += r["nvars"]
        if r["twin"] == "sat":
            rep.nontrivial.add(key)
        if r["verdict"] == "unsat":
            rep.discharged += 1
        elif r["verdict"] == "unknown":
            rep.inconclusive += 1
            rep.inconclusive_samples.append(key)
        else:
            rep.refuted += 1
            cex = r["cex"]
            if cex["bad"]:
                what = f"are_d_separated({cex['a']}, {cex['b']} | {cex['C']}) on nodes={cex['nodes']} di={cex['di']} bi={cex['bi']}: {cex['observed']}, m-separation says separated={cex['expected_separated']}"
                rep.add_violation(Violation(PROP, [key], what, {"property": PROP, **cex}))
            else:
                rep.harness_errors.append(f"{key}: solver counterexample did not reproduce natively: {cex}")
        if len(rep.samples) < 8 and len(r["C"]) >= 1:
            rep.add_sample({"query": key, "verdict": r["verdict"], "encode_s": round(r["encode_s"], 2), "solve_s": round(r["solve_s"], 2), "bool_vars": r["nvars"]})
    vn = 3
    cnt, bad = validate_native(vn)
    unsupported = any("encoding cannot be built" in h for h in rep.harness_errors)
    cnt2, bad2 = native_random(*((300, 200, 60) if unsupported else (40, 25, 8)))
    cnt += cnt2
    bad = bad + bad2
    rep.extra["native_random_graphs"] = {"queries": cnt2, "note": "pseudo-random 4-6 node ADMGs, not solver-decided" + ("; enlarged because the encoding could not be built on this tree" if unsupported else "")}
    for b in bad:
        what = f"are_d_separated({b['a']}, {b['b']} | {b['C']}) on nodes={b['nodes']} di={b['di']} bi={b['bi']}: {b['observed']}, m-separation says separated={b['expected_separated']} (native validation corpus)"
        rep.add_violation(Violation(PROP, [f"native {b['a']} {b['b']} {b['C']}"], what, {"property": PROP, **b}))
    from .. import history_runs

    cnt += history_runs.run(rep, PROP)
    rep.extra.update({"states": max(states, 1), "transitions": max(rep.obligations, 1), "traces_validated_against_impl": cnt})
    return rep.finish()


def replay(payload: dict) -> int:
    from y0.dsl import Variable as V

    if payload.get("kind") == "history":
        from .. import history_runs

        return history_runs.replay(PROP, payload)

    r = native_case([V(n) for n in payload["nodes"]], [(V(u), V(v)) for u, v in payload["di"]], [(V(u), V(v)) for u, v in payload["bi"]], V(payload["a"]), V(payload["b"]), [V(c) for c in payload["C"]])
    print(r)
    print("reproduced" if r["bad"] else "not reproduced")
    return 1 if r["bad"] else 0

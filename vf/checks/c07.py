"""C07 — ID* estimands equal the probability of the counterfactual event (engine SEM, ScmL3)."""

from __future__ import annotations

import itertools as itt

from ..common import Report, Unsupported, Violation, pmap, seed, short, tier
from ..events import atoms_for_model, ev_str, event_env, events, to_y0_event
from ..graphs import CURATED, GSpec, family
from ..sem import exact
from ..sem.denote import Denoter
from ..sem.harness import grid_params, hashseed, params_from_json, params_to_json
from ..sem.l2 import TARGET
from ..sem.l3 import SymL3
from ..sem.rat import Decider, Rat
from .c13 import free_cp_names

PROP = "C07"
TIMEOUT_MS = {"quick": 10000, "thorough": 30000}


def single_world_vocab(nodes):
    nodes = set(nodes)

    def check(pop, dos, names):
        if pop != TARGET:
            raise Unsupported(f"population-tagged term in an ID* estimand")
        if len(dos) > 1:
            raise Unsupported("term mixing different worlds in an ID* estimand")
        extra = set(names) - nodes
        if extra:
            raise Unsupported(f"estimand mentions {sorted(extra)} which are not nodes of the graph")

    return check


TRACE: dict = {}
_state = {"patched": False, "corrected": False}

# known findings of ID* (see known_findings.json); each is flagged by a harness-side wrapper at its call site
D13_KEY = "id_star:pillow-subscript-always-minus"
D14_KEY = "id_star:summed-and-literal-subscript-collide"
D16_KEY = "cg:observed-equals-intervened-not-merged-when-confounded"
D17_KEY = "id_star:summed-ancestor-vs-literal-subscript-conflict-missed"
D18_KEY = "id_star:district-member-subscripted-with-its-own-fixed-copy"
D19_KEY = "id_star:event-value-of-V-equals-subscript-of-V-elsewhere"
CONDITION_ONLY = {D14_KEY, D19_KEY}  # findings without a harness-side correction


def _install_wrappers():
    """Harness-side wrappers (no source hook) around three functions of the real implementation.

    They (a) record in TRACE the call-site conditions under which the known findings manifest and
    (b) when _state['corrected'] is set, substitute the corrected behaviour, so that a wrong output can
    be attributed to a known finding only if the corrected run is right (or refuses).
    """
    import importlib

    from y0.dsl import CounterfactualVariable, Intervention

    mod = importlib.import_module("y0.algorithm.identify.id_star")
    cg = importlib.import_module("y0.algorithm.identify.cg")
    if _state["patched"]:
        return
    orig_events = mod.get_events_of_district
    orig_conflicts = mod.get_conflicts
    orig_same = cg.nodes_attain_same_value

    def pillow_value(node, event):
        if node in event:
            return event[node]
        if isinstance(node, CounterfactualVariable):
            for i in node.interventions:
                if i.get_base() == node.get_base():
                    return i
        return -node.get_base()

    def events_wrapper(graph, district, event):
        pillow = graph.get_markov_pillow(district)
        vals = [pillow_value(n, event) for n in pillow]
        if any(v.star for v in vals):
            TRACE[D13_KEY] = True  # a pillow node is fixed at '+V' but y0 writes '-V'
        bases = [n.get_base() for n in pillow]
        keys = {n.get_base().intervene(pillow) if pillow else n.get_base() for n in district}
        summed = {n.get_base().name for n in pillow if n not in event and cg.is_not_self_intervened(n)}
        literal = {i.name for n in list(pillow) + list(district) if isinstance(n, CounterfactualVariable) for i in n.interventions}
        if len(set(bases)) < len(bases) or len(keys) < len(set(district)) or (summed & literal):
            TRACE[D14_KEY] = True  # a summed value and a literal subscript of one variable share the symbol '-V'
        if {v.name for v in vals} & {n.name for n in district}:
            TRACE[D18_KEY] = True  # the fixed copy X_x of a district member X is in the pillow: y0 writes X_x = value of X
        if _state["corrected"] and pillow:
            out = {}
            for n in district:
                own = [v for v in vals if v.name != n.name]
                out[n.get_base().intervene(own) if own else n.get_base()] = mod._get_node_event(n, event)
            return out
        return orig_events(graph, district, event)

    def conflicts_wrapper(cf_graph, event):
        out = orig_conflicts(cf_graph, event)
        free = {n.get_base().name for n in cf_graph.nodes() if cg.is_not_self_intervened(n) and n not in event}
        subs = {i.name for i in mod.get_cf_interventions(cf_graph.nodes())}
        if not out and free & subs:
            TRACE[D17_KEY] = True  # an ancestor that is summed over all its values also occurs as a fixed subscript
            if _state["corrected"]:
                name = sorted(free & subs)[0]
                return [(Intervention(name, False), Intervention(name, True))]
        return out

    def same_wrapper(graph, event, a, b):
        out = orig_same(graph, event, a, b)
        if not out and a != b and a.get_base() == b.get_base() and not cg.has_same_confounders(graph, a, b):
            fixed = None
            if a in event and b in event:
                fixed = event[a] == event[b]
            elif a in event:
                fixed = isinstance(b, CounterfactualVariable) and event[a] in b.interventions
            elif b in event:
                fixed = isinstance(a, CounterfactualVariable) and event[b] in a.interventions
            if fixed:
                TRACE[D16_KEY] = True  # observed value equals the intervened value, refused because of confounders
                if _state["corrected"]:
                    return True
        return out

    mod.get_events_of_district = events_wrapper
    mod.get_conflicts = conflicts_wrapper
    cg.nodes_attain_same_value = same_wrapper
    _state["patched"] = True


def run_id_star(g: GSpec, ev, corrected: bool = False):
    from y0.algorithm.identify import Unidentifiable, id_star

    _install_wrappers()
    TRACE.clear()
    _state["corrected"] = corrected
    try:
        return "ok", id_star(g.to_nx(), to_y0_event(ev))
    except Unidentifiable:
        return "unidentifiable", None
    finally:
        _state["corrected"] = False


def eval_envs(expr, ev):
    """Environments under which the output must equal P(event): event values + every value of stray free names."""
    env, amb = event_env(ev)
    free = free_cp_names(expr)
    if free & amb:
        return None, f"output mentions {sorted(free & amb)} to which the event gives two values"
    stray = sorted(free - set(env))
    envs = []
    for vals in itt.product((0, 1), repeat=len(stray)):
        e = dict(env)
        e.update(zip(stray, vals))
        envs.append(e)
    return envs, None


def exact_values(g, ev, expr, env, params):
    w = exact.ExactL3(g, params)
    truth = w.prob_cw(TARGET, atoms_for_model(ev))
    try:
        val = exact.evaluate(expr, w, env, ienv={})
    except exact.Undefined as e:
        return f"undefined: {e}", str(truth), True
    return str(val), str(truth), val != truth


def check_output(g, ev, expr, model, den, timeout_ms):
    from y0.dsl import Zero

    out = {"queries": 0, "unsat": 0, "sat": 0, "unknown": 0, "secs": 0.0, "violation": None, "skip": None}
    truth = model.prob_cw(TARGET, atoms_for_model(ev))
    envs, why = eval_envs(expr, ev)
    if envs is None:
        out["skip"] = why
        return out
    for env in envs:
        try:
            lhs = den.ev(expr, env, {})
        except Unsupported as e:
            out["violation"] = {"kind": "vocabulary", "why": str(e), "env": env}
            return out
        verdict, m, dt = Decider(model.constraints, timeout_ms, model.params).differ(lhs, truth)
        out["queries"] += 1
        out["secs"] += dt
        out[verdict] += 1
        if verdict == "sat":
            cands = [model.model_to_params(m)] + [grid_params(model.params, s) for s in range(4)]
            for params in cands:
                try:
                    a, b, differ = exact_values(g, ev, expr, env, params)
                except Exception:  # noqa: BLE001 - grid point outside the simplex etc.
                    continue
                if differ and not b.startswith("-"):
                    out["violation"] = {"kind": "wrong", "env": env, "params": params_to_json(params), "est": a, "truth": b}
                    return out
            out["violation"] = {"kind": "noreplay", "env": env}
            return out
    return out


def work(job):
    g, evs, timeout_ms = job
    model = SymL3(g)
    den = Denoter(model, vocab=single_world_vocab(g.nodes))
    res = []
    for ev in evs:
        rec = {"g": g.to_json(), "ev": [list(map(lambda x: list(x) if isinstance(x, tuple) else x, a)) for a in ev], "evs": ev_str(ev)}
        try:
            status, expr = run_id_star(g, ev)
        except Exception as e:  # noqa: BLE001
            rec["status"] = "crash"
            rec["exc"] = f"{type(e).__name__}: {short(e, 160)}"
            res.append(rec)
            continue
        rec["status"] = status
        trace = dict(TRACE)
        if status == "ok":
            rec["est"] = str(expr)
            rec.update(check_output(g, ev, expr, model, den, timeout_ms))
            if rec["violation"] is not None and rec["violation"]["kind"] in ("wrong", "vocabulary"):
                rec["explained"] = explain(g, ev, trace, model, den, timeout_ms, expr)
        res.append(rec)
    return res


def bound_literal_clash(ev, expr) -> bool:
    """The event fixes some V at the literal '-V' in a subscript and the output sums over V with a '-V'
    subscript in the scope of that sum: the notation cannot tell the summed value from the literal one."""
    from y0.dsl import CounterfactualVariable, Fraction, Probability, Product, Sum

    literal = {n for _, s, _ in ev for n, x in s if x == 0}
    if not literal:
        return False

    def walk(e, bound):
        if isinstance(e, Probability):
            for v in itt.chain(e.children, e.parents):
                if isinstance(v, CounterfactualVariable):
                    if any((not i.star) and i.name in bound and i.name in literal for i in v.interventions):
                        return True
            return False
        if isinstance(e, Product):
            return any(walk(f, bound) for f in e.expressions)
        if isinstance(e, Fraction):
            return walk(e.numerator, bound) or walk(e.denominator, bound)
        if isinstance(e, Sum):
            return walk(e.expression, bound | {r.name for r in e.ranges})
        return False

    return walk(expr, frozenset())


def explain(g, ev, trace, model, den, timeout_ms, expr=None):
    """Keys of the known findings that explain a wrong output (empty = unexplained).

    A flagged call-site condition explains the violation only if re-running the real algorithm with the
    harness-side corrections gives a right answer or a refusal; the collision (D14) has no correction and
    explains by its condition alone."""
    flags = sorted(k for k in trace if trace[k])
    if expr is not None and bound_literal_clash(ev, expr):
        flags = sorted(set(flags) | {D14_KEY})
    if any((v, val) in s2 for v, s1, val in ev for _, s2, _ in ev):
        # a counterfactual atom V_s = v whose value is used as the subscript V = v of another atom: the two worlds
        # have to be joined by composition, which the implementation does not do when it unions the subscripts
        flags = sorted(set(flags) | {D19_KEY})
    if not flags:
        return []
    if CONDITION_ONLY & set(flags):
        return flags
    try:
        status, expr = run_id_star(g, ev, corrected=True)
    except Exception:  # noqa: BLE001
        return []
    flags = sorted(set(flags) | {k for k in TRACE if TRACE[k]})
    if CONDITION_ONLY & set(flags) or status != "ok":
        return flags
    chk = check_output(g, ev, expr, model, den, timeout_ms)
    if chk["violation"] is None and not chk["unknown"]:
        return flags
    if chk["violation"] is None and chk["unknown"]:
        return ["attribution-undecided"]  # the solver timed out on the corrected re-run: neither excused nor reported
    return []


def ev_from_json(j):
    return tuple((a[0], tuple(tuple(p) for p in a[1]), a[2]) for a in j)


def jobs_for(t):
    jobs = []
    to = TIMEOUT_MS[t]

    def add(g, evs, chunk=400):
        evs = list(evs)
        for i in range(0, len(evs), chunk):
            jobs.append((g, evs[i : i + chunk], to))

    if t == "quick":
        for g in family(2, labellings=("fwd",)):
            add(g, events(g.nodes, 3, 2, stride=1))
        for g in family(3, labellings=("fwd",), n_min=3):
            add(g, events(g.nodes, 2, 1))
            # every 12th event with a two-variable subscript (merging decisions that look at several parents at once)
            two = [ev for ev in events(g.nodes, 2, 2) if any(len(s) == 2 for _, s, _ in ev)]
            add(g, two[seed() % 12 :: 12])
        # a seed-chosen slice of the 4-node classes (bugs that need a chain of three plus a confounded or extra node)
        for i, g in enumerate(family(4, labellings=("fwd",), n_min=4)):
            if max(len(g.parents(n)) for n in g.nodes) <= 2 and i % 240 == seed() % 240:
                add(g, events(g.nodes, 2, 1, stride=3, offset=seed()))
        for name in ("fig9", "frontdoor", "napkin", "bow"):
            g = CURATED[name]
            add(g, events(g.nodes, 1, 2))
        g = CURATED["fig9"]
        add(g, [(("Y", (("X", 0),), 0), ("X", (), 1), ("Z", (("D", 0),), 0), ("D", (), 0))])
    else:
        for g in family(2):
            add(g, events(g.nodes, 3, 2))
        for g in family(3, n_min=3):
            add(g, events(g.nodes, 2, 2))
            add(g, events(g.nodes, 3, 1, stride=8, offset=seed()))
        for i, g in enumerate(family(4, labellings=("fwd",), n_min=4)):
            if max(len(g.parents(n)) for n in g.nodes) <= 2 and i % 24 == seed() % 24:
                add(g, events(g.nodes, 2, 1))
        for name, g in CURATED.items():
            if len(g.nodes) <= 5 and max(len(g.parents(n)) for n in g.nodes) <= 2:
                add(g, events(g.nodes, 1, 2))
    return jobs


def run() -> int:
    t = tier()
    rep = Report(PROP, "translation_validation")
    rep.functions = [
        "y0.algorithm.identify.id_star (lines 1-9), id_star_line_6/get_events_of_district, get_conflicts, id_star_line_9 (run natively)",
        "y0.algorithm.identify.cg.make_counterfactual_graph and helpers (reached through it)",
        "returned Expression -> z3 terms over a symbolic response-type model (vf/sem/l3.py)",
    ]
    rep.bounds = {
        "graphs": "quick: ADMGs <=2 nodes (events of <=3 atoms, subscripts <=2), ADMGs with 3 nodes (events of <=2 atoms, subscripts <=1, and every 12th event with a two-variable subscript), curated fig9/front-door/napkin/bow (single atoms, subscripts <=2) + the figure-9 query; thorough: adds two labellings, 3-node graphs with subscripts <=2 and 1/8 of the 3-atom events, 1/24 of the 4-node classes with in-degree <=2",
        "events": "conjunctions of atoms 'V under do(S) = v' over distinct (V, S), all value polarities, S may mention V itself, at most 2 distinct non-empty worlds",
        "models": "all positive functional SCMs over binary variables with one binary latent per bidirected edge: response-type distributions given the latents are free (moment parametrisation, every atom > 0); all worlds share the exogenous state",
        "per_query_timeout_ms": TIMEOUT_MS[t],
        "PYTHONHASHSEED": hashseed(),
    }
    rep.assumptions = [
        "reading of the output (property statement / DESIGN §2): an unmarked variable takes the value the event gives its base variable; '-X'/'+X' subscripts are the literal values 0/1 unless bound by an enclosing Sum",
        "events giving one base variable two different values are evaluated only when the output does not mention that variable unmarked (otherwise counted as 'ambiguous reading' and not decided)",
        "'unidentifiable' refusals are accepted (completeness of ID* is not part of the property)",
    ]
    rep.rule = "cases = (graph, event) given to id_star; non-trivial = an expression other than a bare single probability term was returned and solver-checked; distinct by (graph key, event)"
    for job, st, res in pmap(work, jobs_for(t)):
        if st != "ok":
            rep.harness_errors.append(short(res, 600))
            continue
        for r in res:
            rep.cases += 1
            g = GSpec.from_json(r["g"])
            key = f"{g.key()} {r['evs']}"
            rep.count(r["status"])
            base = {"property": PROP, "graph": r["g"], "event": r["ev"], "hashseed": hashseed()}
            if r["status"] == "crash":
                p = dict(base, kind="crash", exc=r["exc"])
                rep.add_violation(Violation(PROP, [key, "crash:" + r["exc"].split(":")[0]], f"id_star raised {r['exc']} for {key}", p))
                continue
            if r["status"] != "ok":
                continue
            if r["skip"]:
                rep.count("ambiguous_reading")
                continue
            if any(c in r["est"] for c in "*/") or "Sum" in r["est"]:
                rep.nontrivial.add(key)
            rep.obligations += r["queries"]
            rep.discharged += r["unsat"]
            rep.refuted += r["sat"]
            rep.inconclusive += r["unknown"]
            rep.solver_s += r["secs"]
            if r["unknown"]:
                rep.inconclusive_samples.append(key)
            if len(rep.samples) < 8 and ("Sum" in r["est"] or "*" in r["est"]) and r["unsat"]:
                rep.add_sample({"case": key, "output": r["est"], "queries": r["queries"], "unsat": r["unsat"]})
            v = r["violation"]
            if v is None:
                continue
            if v["kind"] == "noreplay":
                rep.harness_errors.append(f"sat model did not replay for {key}")
                continue
            p = dict(base, est_seen=r["est"], **v)
            what = f"id_star returned {short(r['est'], 120)} for {key}: " + (
                f"value {v['est']} != P(event) = {v['truth']} at {v['env']}" if v["kind"] == "wrong" else v["why"]
            )
            if r.get("explained") == ["attribution-undecided"]:
                # a wrong output at a call site of a known finding, and the solver timed out when asked whether the
                # harness-side correction makes it right: inconclusive (listed), neither a known finding nor a violation
                rep.inconclusive += 1
                rep.inconclusive_samples.append(key + " (attribution to a known finding undecided: solver timeout on the corrected re-run)")
                continue
            rep.add_violation(Violation(PROP, [key] + list(r.get("explained") or []), what, p))
    from .. import history_runs

    history_runs.run(rep, PROP)
    return rep.finish()


def replay(payload: dict) -> int:
    if payload.get("kind") == "history":
        from .. import history_runs

        return history_runs.replay(PROP, payload)
    g = GSpec.from_json(payload["graph"])
    ev = ev_from_json(payload["event"])
    print("graph", g.key(), "event", ev_str(ev))
    try:
        status, expr = run_id_star(g, ev)
    except Exception as e:  # noqa: BLE001
        print(f"id_star raised {type(e).__name__}: {e}")
        return 1 if payload["kind"] == "crash" else 0
    print("id_star now:", status, expr)
    if status != "ok" or payload["kind"] == "crash":
        print("not reproduced")
        return 0
    if payload["kind"] != "wrong":
        model = SymL3(g)
        chk = check_output(g, ev, expr, model, Denoter(model, vocab=single_world_vocab(g.nodes)), 30000)
        bad = chk["violation"] is not None and chk["violation"]["kind"] == payload["kind"]
        print("recorded:", payload.get("why"), "| now:", chk["violation"])
        print("reproduced" if bad else "not reproduced")
        return 1 if bad else 0
    a, b, differ = exact_values(g, ev, expr, payload["env"], params_from_json(payload["params"]))
    print(f"expression value {a}, P(event) = {b}:", "reproduced" if differ else "not reproduced")
    return 1 if differ else 0

"""C19, Definition 2.1 and subscript minimisation decided over symbolic graphs (RSI).

get_ancestors_of_counterfactual(Y_x, G) and minimize_counterfactual(Y_x, G) are interpreted from their current
source over a symbolic ADMG on N nodes for a concrete counterfactual variable Y_x; the result (a guarded set of
candidate counterfactual variables / a guarded choice of variables) is compared by z3 with the formula of the
published definition.  Node symmetry: Y = V0, the subscripted variables are V1.. (or include V0: reflexive).
"""

from __future__ import annotations

import itertools as itt
import time

import z3

from ..common import Unsupported, short
from ..rsi import models as M
from ..rsi.harness import SymInput, solve, universe
from ..rsi.interp import Interp
from ..rsi.sym import Choice, SSet, band, biff, bnot, bor, is_sym, lift


def templates(n):
    """(name, subscripts) with subscripts a tuple of (node index, value)."""
    out = []
    for k in range(0, min(3, n - 1) + 1):
        for refl in (False, True):
            idx = (list(range(0, k)) if refl else list(range(1, k + 1)))
            if refl and k == 0:
                continue
            for vals in ([(0,) * k] if k < 2 else [(0,) * k, (1, 0) + (0,) * (k - 2)]):
                out.append(tuple(zip(idx, vals)))
    return out


def y0_cf(U, subs, base=0):
    from y0.dsl import Intervention

    v = U[base]
    if subs:
        v = v.intervene([Intervention(U[i].name, star=bool(x)) for i, x in subs])
    return v


def reach_incl(U, edge):
    """R[u][v]: u ->* v (reflexive) for edge guards edge(u, v)."""
    R = {u: {v: (True if u == v else edge(u, v)) for v in U} for u in U}
    for k in U:
        for u in U:
            for v in U:
                if u != k and v != k and u != v:
                    R[u][v] = bor(R[u][v], band(R[u][k], R[k][v]))
    return R


def spec_ancestors(U, inp: SymInput, subs):
    """Def. 2.1: W_z in An(Y_x) iff W in An(Y) in G with edges out of X removed and z = x restricted to
    An(W) in G with edges into X removed."""
    from y0.dsl import Intervention

    X = {U[i] for i, _ in subs}
    d = lambda u, v: inp.d.get((u, v), False)
    R_out = reach_incl(U, lambda u, v: False if u in X else d(u, v))
    R_in = reach_incl(U, lambda u, v: False if v in X else d(u, v))
    Y = U[0]
    spec = {}
    ivs = [Intervention(U[i].name, star=bool(x)) for i, x in subs]
    for w in U:
        for mask in range(1 << len(subs)):
            z = [iv for j, iv in enumerate(ivs) if mask >> j & 1]
            g = band(inp.p[w], R_out[w][Y], *[(R_in[U[i]][w] if mask >> j & 1 else bnot(R_in[U[i]][w])) for j, (i, _) in enumerate(subs)])
            var = w.intervene(z) if z else w
            spec[var] = bor(spec.get(var, False), g)
    return spec


def spec_minimize(U, inp: SymInput, subs):
    from y0.dsl import Intervention

    X = {U[i] for i, _ in subs}
    d = lambda u, v: inp.d.get((u, v), False)
    R_in = reach_incl(U, lambda u, v: False if v in X else d(u, v))
    Y = U[0]
    ivs = [Intervention(U[i].name, star=bool(x)) for i, x in subs]
    spec = {}
    for mask in range(1 << len(subs)):
        z = [iv for j, iv in enumerate(ivs) if mask >> j & 1]
        g = band(*[(R_in[U[i]][Y] if mask >> j & 1 else bnot(R_in[U[i]][Y])) for j, (i, _) in enumerate(subs)])
        var = Y.intervene(z) if z else Y
        spec[var] = bor(spec.get(var, False), g)
    return spec


def rsi_work(job):
    kind, n, subs, timeout_ms = job
    U = universe(n)
    out = {"kind": kind, "N": n, "subs": [list(s) for s in subs]}
    inp = SymInput(U, acyclic=True)
    g = inp.mixed()
    cons = list(inp.wf) + [lift(inp.p[U[i]]) for i in {0} | {i for i, _ in subs}]
    ip = Interp(U)
    M.Ctx.side = []
    var = y0_cf(U, subs)
    out["query"] = str(var)
    t0 = time.time()
    try:
        if kind == "ancestors":
            res, raises = ip.call("get_ancestors_of_counterfactual", var, g)
            got = SSet.of(res)
            spec = spec_ancestors(U, inp, subs)
            keys = set(got.d) | set(spec)
            diff = bor(*[bnot(biff(got.mem(k), spec.get(k, False))) for k in keys])
        else:
            res, raises = ip.call("minimize_counterfactual", var, g)
            ch = Choice.of(res)
            spec = spec_minimize(U, inp, subs)
            got = {}
            for gg, x in ch.items:
                got[x] = bor(got.get(x, False), gg)
            keys = set(got) | set(spec)
            diff = bor(*[bnot(biff(got.get(k, False), spec.get(k, False))) for k in keys])
    except Unsupported as e:
        out.update(status="unsupported", why=str(e))
        return out
    out["encode_s"] = time.time() - t0
    goal = bor(diff, *[x for x, _, _ in raises])
    tw = "n/a"
    if subs and n >= 3:
        # vacuity twin: some subscript is relevant and some node lies between it and Y
        i0 = subs[0][0]
        if i0 != 0:
            tw, _, _ = solve(cons, band(inp.d[(U[i0], U[n - 1])], inp.d[(U[n - 1], U[0])]) if n - 1 not in (0, i0) else inp.d[(U[i0], U[0])], timeout_ms)
    out["twin"] = tw
    verdict, model, dt = solve(cons, goal, timeout_ms)
    out.update(verdict=verdict, solve_s=dt, nvars=len(inp.d) + len(inp.b) + len(inp.p))
    if verdict == "sat":
        nodes, di, bi = inp.concrete(model)
        out["cex"] = native_case(kind, nodes, di, bi, subs, U)
    return out


def native_case(kind, nodes, di, bi, subs, U):
    """Replay on the real functions against the transcription of the definitions in c19.py."""
    from ..graphs import GSpec
    from . import c19

    g = GSpec(tuple(v.name for v in nodes), tuple((u.name, v.name) for u, v in di), tuple(tuple(sorted((u.name, v.name))) for u, v in bi))
    s = tuple(sorted((U[i].name, x) for i, x in subs))
    if kind == "ancestors":
        r = c19.check_ancestors(g, U[0].name, s)
        bad = r["status"] != "ok"
    else:
        from y0.algorithm.counterfactual_transport.ancestor_utils import minimize_counterfactual
        from y0.dsl import CounterfactualVariable

        r = {"kind": "minimize-syntactic", "input": f"{U[0].name}[{s}]"}
        try:
            o = minimize_counterfactual(c19.y0_var(U[0].name, s), g.to_nx())
            got = (o.name, tuple(sorted((i.name, 1 if i.star else 0) for i in o.interventions)) if isinstance(o, CounterfactualVariable) else ())
            want = c19.def_minimize(g, U[0].name, s)
            bad = got != want
            r.update(out=str(got), want=str(want))
        except Exception as e:  # noqa: BLE001
            bad = True
            r.update(out=f"raised {type(e).__name__}: {short(e, 100)}")
    return {"g": g.to_json(), "v": U[0].name, "s": [list(p) for p in s], "kind": kind, "bad": bad, "out": r.get("out"), "want": r.get("want")}


def rsi_jobs(t):
    to = 120000 if t == "quick" else 900000
    jobs = []
    for n in ([4] if t == "quick" else [4, 5]):
        for subs in templates(n):
            jobs.append(("ancestors", n, subs, to))
            jobs.append(("minimize", n, subs, to))
    return jobs

"""C19 — counterfactual event simplification and factorisation preserve probability.

minimize_counterfactual / simplify: Boolean L3 (SAT over unit-level structural functions).
do_counterfactual_factor_factorization: SymL3 (z3 QF_NRA over response-type models).
get_ancestors_of_counterfactual: compared with a transcription of Definition 2.1 (assertion, not solver-decided).
"""

from __future__ import annotations

import itertools as itt

import z3

from ..common import Report, Unsupported, Violation, pmap, seed, short, tier
from ..events import atom_keys, atoms_for_model, ev_str, event_env, events, from_y0_event
from ..graphs import CURATED, GSpec, family
from ..sem import exact
from ..sem.bool3 import BoolL3, eval_unit, sat, unit_from_model
from ..sem.denote import Denoter
from ..sem.harness import grid_params, hashseed, params_from_json, params_to_json
from ..sem.l2 import TARGET
from ..sem.l3 import SymL3
from ..sem.rat import Decider
from .c07 import ev_from_json
from .c13 import free_cp_names

PROP = "C19"
PLUS_KEY = "ctf:minus-subscript-for-a-parent-the-event-sets-to-plus"
REFL_KEY = "ctf:tautological-reflexive-atom-kept-as-factual-event"
CLASH_KEY = "ctf:summed-and-literal-subscript-collide"
WORLDS_KEY = "ctf:two-worlds-of-one-variable-share-one-name"


def two_worlds(expr) -> bool:
    """Some base variable occurs in the expression under two different subscript sets (e.g. B @ -A and B @ +A):
    the unmarked name B then stands for two different counterfactuals, one of which may have to be summed."""
    from y0.dsl import CounterfactualVariable, Fraction, Probability, Product, Sum

    seen = {}

    def walk(e):
        if isinstance(e, Probability):
            for v in itt.chain(e.children, e.parents):
                subs = frozenset((i.name, i.star) for i in v.interventions) if isinstance(v, CounterfactualVariable) else frozenset()
                seen.setdefault(v.name, set()).add(subs)
        elif isinstance(e, Product):
            for f in e.expressions:
                walk(f)
        elif isinstance(e, Fraction):
            walk(e.numerator)
            walk(e.denominator)
        elif isinstance(e, Sum):
            walk(e.expression)

    walk(expr)
    return any(len(v) > 1 for v in seen.values())


def y0_var(v, s):
    from y0.dsl import Intervention, Variable

    var = Variable(v)
    if s:
        var = var.intervene([Intervention(n, star=bool(x)) for n, x in s])
    return var


def y0_pairs(ev):
    from y0.dsl import Intervention

    return [(y0_var(v, s), Intervention(v, star=bool(val))) for v, s, val in ev]


def atoms_of_pairs(pairs):
    from y0.dsl import CounterfactualVariable

    out = []
    for var, val in pairs:
        s = tuple(sorted((i.name, 1 if i.star else 0) for i in var.interventions)) if isinstance(var, CounterfactualVariable) else ()
        out.append((var.name, s, 1 if val.star else 0))
    return tuple(out)


# --------------------------------------------------------------------------------- the four sub-checks


def check_minimize(g: GSpec, b: BoolL3, v, s):
    from y0.algorithm.counterfactual_transport.ancestor_utils import minimize_counterfactual
    from y0.dsl import CounterfactualVariable, Variable

    rec = {"kind": "minimize", "input": f"{v}[{','.join(f'{n}={x}' for n, x in s)}]"}
    try:
        out = minimize_counterfactual(y0_var(v, s), g.to_nx())
    except Exception as e:  # noqa: BLE001
        rec.update(status="crash", exc=f"{type(e).__name__}: {short(e, 100)}")
        return rec
    if not isinstance(out, Variable) or out.name != v:
        rec.update(status="malformed", out=str(out))
        return rec
    t = tuple(sorted((i.name, 1 if i.star else 0) for i in out.interventions)) if isinstance(out, CounterfactualVariable) else ()
    rec["out"] = str(out)
    verdict, m, dt = sat(z3.Xor(b.value(v, dict(s)), b.value(v, dict(t))))
    rec.update(status=verdict, secs=dt, changed=(t != tuple(sorted(s))))
    if verdict == "sat":
        unit = unit_from_model(b, m)
        a, c = eval_unit(g, unit, v, dict(s)), eval_unit(g, unit, v, dict(t))
        rec.update(unit={f"{k[0]}|{''.join(map(str, k[1]))}": x for k, x in unit.items()}, v_in=a, v_out=c, reproduced=(a != c))
    return rec


def check_simplify(g: GSpec, b: BoolL3, ev):
    from y0.algorithm.counterfactual_transport.api import simplify

    rec = {"kind": "simplify", "input": ev_str(ev)}
    try:
        out = simplify(event=y0_pairs(ev), graph=g.to_nx())
    except Exception as e:  # noqa: BLE001
        rec.update(status="crash", exc=f"{type(e).__name__}: {short(e, 100)}")
        return rec
    fin = b.event(ev)
    if out is None:
        rec["out"] = None
        verdict, m, dt = sat(fin)  # 'impossible' is right iff no unit satisfies the event
    else:
        try:
            oat = atoms_of_pairs(out)
        except Exception as e:  # noqa: BLE001
            rec.update(status="malformed", out=str(out))
            return rec
        rec["out"] = ev_str(oat)
        verdict, m, dt = sat(z3.Xor(fin, b.event(oat)))
    rec.update(status=verdict, secs=dt, changed=(out is None or rec["out"] != rec["input"]))
    if verdict == "sat":
        unit = unit_from_model(b, m)
        holds = lambda atoms: all(eval_unit(g, unit, v, dict(s)) == val for v, s, val in atoms)
        a = holds(ev)
        c = False if out is None else holds(atoms_of_pairs(out))
        rec.update(unit={f"{k[0]}|{''.join(map(str, k[1]))}": x for k, x in unit.items()}, v_in=a, v_out=c, reproduced=(a != c))
    return rec


def def21_ancestors(g: GSpec, v, s):
    """Correa et al. 2022, Def. 2.1: An(Y_x) = { W_z : W in An(Y) in G with edges OUT of X removed, z = x restricted to An(W) in G with edges INTO X removed }."""
    X = {n for n, _ in s}
    cut_out = GSpec(g.nodes, tuple(e for e in g.di if e[0] not in X), g.bi)
    out = set()
    for w in cut_out.ancestors([v]):
        z = tuple(sorted((n, x) for n, x in s if n in g.ancestors([w], removed_in=X)))
        out.add((w, z))
    return out


def check_ancestors(g: GSpec, v, s):
    from y0.algorithm.counterfactual_transport.ancestor_utils import get_ancestors_of_counterfactual
    from y0.dsl import CounterfactualVariable

    rec = {"kind": "ancestors", "input": f"{v}[{','.join(f'{n}={x}' for n, x in s)}]"}
    try:
        res = get_ancestors_of_counterfactual(y0_var(v, s), g.to_nx())
    except Exception as e:  # noqa: BLE001
        rec.update(status="crash", exc=f"{type(e).__name__}: {short(e, 100)}")
        return rec
    got = {(w.name, tuple(sorted((i.name, 1 if i.star else 0) for i in w.interventions)) if isinstance(w, CounterfactualVariable) else ()) for w in res}
    want = def21_ancestors(g, v, s)
    rec.update(status="ok" if got == want else "differs", out=str(sorted(got)), want=str(sorted(want)))
    return rec


def def_minimize(g: GSpec, v, s):
    """||Y_x||: keep the subscripts whose variable is an ancestor of Y in G with edges INTO X removed."""
    X = {n for n, _ in s}
    anc = g.ancestors([v], removed_in=X)
    return (v, tuple(sorted((n, x) for n, x in s if n in anc)))


def def42_components(g: GSpec, roots, conds):
    """Correa et al. 2022, Def. 4.2: the ancestral sets An(W_t) in G with edges OUT of X*(W_t) removed, X*(W_t) =
    the (minimised) conditioned variables among the ancestors of W_t; sets are put together when they share a
    vertex or a bidirected edge of G joins a vertex of one with a vertex of the other (transitively)."""
    mconds = {def_minimize(g, v, s) for v, s in conds}
    sets = []
    for v, s in roots:
        cut = {w for (w, z) in (mconds & def21_ancestors(g, v, s))}
        g2 = GSpec(g.nodes, tuple(e for e in g.di if e[0] not in cut), g.bi)
        sets.append(frozenset(def21_ancestors(g2, v, s)))
    sets = list(dict.fromkeys(sets))
    parent = list(range(len(sets)))

    def find(i):
        while parent[i] != i:
            i = parent[i]
        return i

    base = [{w for w, _ in st} for st in sets]
    for i, j in itt.combinations(range(len(sets)), 2):
        linked = bool(base[i] & base[j]) or any((a in base[i] and b in base[j]) or (a in base[j] and b in base[i]) for a, b in g.bi)
        if linked:
            parent[find(i)] = find(j)
    comps = {}
    for i, st in enumerate(sets):
        comps.setdefault(find(i), set()).update(st)
    return {frozenset(c) for c in comps.values()}


def check_components(g: GSpec, roots, conds):
    from y0.algorithm.counterfactual_transport.ancestor_utils import get_ancestral_components
    from y0.dsl import CounterfactualVariable

    fmt = lambda vs: "{" + ", ".join(f"{v}[{','.join(f'{n}={x}' for n, x in s)}]" for v, s in vs) + "}"
    rec = {"kind": "components", "input": f"W*={fmt(roots)} X*={fmt(conds)}"}
    try:
        res = get_ancestral_components(conditioned_variables={y0_var(v, s) for v, s in conds}, root_variables={y0_var(v, s) for v, s in roots}, graph=g.to_nx())
    except Exception as e:  # noqa: BLE001
        rec.update(status="crash", exc=f"{type(e).__name__}: {short(e, 100)}")
        return rec
    conv = lambda w: (w.name, tuple(sorted((i.name, 1 if i.star else 0) for i in w.interventions)) if isinstance(w, CounterfactualVariable) else ())
    got = {frozenset(conv(w) for w in comp) for comp in res}
    want = def42_components(g, roots, conds)
    show = lambda cs: str(sorted(sorted(c) for c in cs))
    rec.update(status="ok" if got == want else "differs", out=show(got), want=show(want))
    return rec


def component_inputs(nodes, stride=1, offset=0):
    """(W*, X*) with X* a subset of W*: 1-3 root variables with <=1 subscript each."""
    keys = atom_keys(nodes, 1)
    i = 0
    for k in (1, 2, 3):
        for roots in itt.combinations(keys, k):
            if len({v for v, _ in roots}) < k:
                continue  # one world per variable
            for m in range(k + 1):
                for conds in itt.combinations(roots, m):
                    i += 1
                    if k == 3 and i % stride != offset % stride:
                        continue
                    yield roots, conds


def check_factorization(g: GSpec, model: SymL3, den: Denoter, ev, timeout_ms):
    from y0.algorithm.counterfactual_transport.api import do_counterfactual_factor_factorization

    rec = {"kind": "factorize", "input": ev_str(ev)}
    try:
        expr, revent = do_counterfactual_factor_factorization(variables=y0_pairs(ev), graph=g.to_nx())
    except Exception as e:  # noqa: BLE001
        rec.update(status="crash", exc=f"{type(e).__name__}: {short(e, 100)}")
        return rec
    rec["out"] = str(expr)
    from .c07 import bound_literal_clash

    rec["clash"] = bound_literal_clash(ev, expr)
    rec["worlds"] = two_worlds(expr)
    env, amb = event_env(ev)
    if free_cp_names(expr) & amb:
        rec.update(status="skip", why="the query gives one variable two values and the expression mentions it unmarked")
        return rec
    stray = free_cp_names(expr) - set(env)
    if stray:
        rec.update(status="vocabulary", why=f"free variables {sorted(stray)} that the returned event does not fix")
        return rec
    truth = model.prob_cw(TARGET, atoms_for_model(ev))
    results = {}
    for mode, ienv in (("literal", {}), ("event-value", dict(env))):
        try:
            lhs = den.ev(expr, env, ienv)
        except Unsupported as e:
            results[mode] = ("vocabulary", str(e), None, 0.0)
            continue
        verdict, m, dt = Decider(model.constraints, timeout_ms, model.params).differ(lhs, truth)
        results[mode] = (verdict, None, m, dt)
    v_lit, why, m, dt = results["literal"]
    rec.update(status=v_lit, secs=dt + results["event-value"][3], alt=results["event-value"][0])
    if v_lit == "vocabulary":
        rec["why"] = why
    if v_lit == "sat":
        for params in [model.model_to_params(m)] + [grid_params(model.params, k) for k in range(4)]:
            try:
                w = exact.ExactL3(g, params)
                a = exact.evaluate(expr, w, env, ienv={})
                c = w.prob_cw(TARGET, atoms_for_model(ev))
            except Exception:  # noqa: BLE001
                continue
            if a != c and c >= 0:
                rec.update(params=params_to_json(params), v_out=str(a), v_in=str(c), reproduced=True)
                break
        else:
            rec["reproduced"] = False
    return rec


def work(job):
    g, mode, payload, timeout_ms = job
    res = []
    b = BoolL3(g)
    if mode == "minimize":
        for v, s in payload:
            r = check_minimize(g, b, v, s)
            r["q"] = [v, [list(p) for p in s]]
            res.append(r)
            r2 = check_ancestors(g, v, s)
            r2["q"] = [v, [list(p) for p in s]]
            res.append(r2)
    elif mode == "components":
        for roots, conds in payload:
            r = check_components(g, roots, conds)
            r["q"] = [[[v, [list(p) for p in s_]] for v, s_ in roots], [[v, [list(p) for p in s_]] for v, s_ in conds]]
            res.append(r)
    elif mode == "simplify":
        for ev in payload:
            r = check_simplify(g, b, ev)
            r["q"] = [[a[0], [list(p) for p in a[1]], a[2]] for a in ev]
            res.append(r)
    else:
        model = SymL3(g)
        den = Denoter(model)
        for ev in payload:
            r = check_factorization(g, model, den, ev, timeout_ms)
            r["q"] = [[a[0], [list(p) for p in a[1]], a[2]] for a in ev]
            res.append(r)
    for r in res:
        r["g"] = g.to_json()
    return res


def events_with_repeats(nodes, max_sub, stride=1, offset=0):
    """Events for SIMPLIFY: <=3 atoms, the same (V, S) may occur twice with equal or different values."""
    keys = atom_keys(nodes, max_sub)
    i = 0
    for k in (1, 2, 3):
        for ks in itt.combinations_with_replacement(keys, k):
            if len({s for _, s in ks if s}) > 2:
                continue
            for vals in itt.product((0, 1), repeat=k):
                i += 1
                if k == 3 and i % stride != offset % stride:
                    continue
                yield tuple((v, s, val) for (v, s), val in zip(ks, vals))


def nonreflexive(evs):
    """Queries given to the factorisation are outputs of SIMPLIFY in Algorithm 2: no atom V_{..V..}."""
    for ev in evs:
        if not any(v in dict(s) for v, s, _ in ev):
            yield ev


def wide_component_jobs(t):
    """Four or five root variables whose ancestral sets are linked only through bidirected edges, for EVERY insertion
    order of those edges (the merging of ancestral sets walks the edges in insertion order): spanning trees of
    bidirected edges on 4 nodes (all 16, all 6 edge orders), the 5-node path (all 24 orders), each also with one
    directed edge; W* = all nodes (factual), X* = none / all / every single one."""
    nodes4, nodes5 = ("A", "B", "C", "D"), ("A", "B", "C", "D", "E")
    out = []
    pairs = list(itt.combinations(nodes4, 2))
    for tree in itt.combinations(pairs, 3):
        if len(GSpec(nodes4, (), tree).districts()) != 1:
            continue
        for order in itt.permutations(tree):
            for di in ((), (("A", "B"),), (("D", "C"),)):
                out.append(GSpec(nodes4, di, tuple(order)))
    path5 = (("A", "B"), ("B", "C"), ("C", "D"), ("D", "E"))
    for order in itt.permutations(path5):
        out.append(GSpec(nodes5, (), tuple(order)))
        out.append(GSpec(nodes5, (("A", "C"),), tuple(order)))
    if t == "quick":
        out = out[seed() % 2 :: 2]
    jobs = []
    for g in out:
        roots = tuple((n, ()) for n in g.nodes)
        items = [(roots, ()), (roots, roots)] + [(roots, (r,)) for r in roots]
        jobs.append((g, items))
    return jobs


def jobs_for(t):
    jobs = []
    to = 10000 if t == "quick" else 30000

    def add(g, mode, items, chunk=500):
        items = list(items)
        for i in range(0, len(items), chunk):
            jobs.append((g, mode, items[i : i + chunk], to))

    fams = family(3, labellings=("fwd",)) if t == "quick" else family(3)
    for g in fams:
        add(g, "minimize", atom_keys(g.nodes, 3 if len(g.nodes) <= 3 else 2))
        add(g, "simplify", events_with_repeats(g.nodes, 1, stride=(16 if t == "quick" else 2), offset=seed()))
        add(g, "components", component_inputs(g.nodes, stride=(8 if t == "quick" else 1), offset=seed()))
        if len(g.nodes) >= 2:
            add(g, "factorize", nonreflexive(events(g.nodes, 2, 1, stride=1)))
    four = [g for i, g in enumerate(family(4, labellings=("fwd",), n_min=4)) if i % (16 if t == "quick" else 2) == seed() % (16 if t == "quick" else 2)]
    for g in four:
        add(g, "minimize", atom_keys(g.nodes, 2))
        add(g, "components", component_inputs(g.nodes, stride=(64 if t == "quick" else 8), offset=seed()))
        if max(len(g.parents(n)) for n in g.nodes) <= 2:
            add(g, "factorize", nonreflexive(events(g.nodes, 1, 1)))
    for g, items in wide_component_jobs(t):
        add(g, "components", items)
    for name in ("fig9", "frontdoor", "napkin", "verma"):
        g = CURATED[name]
        add(g, "minimize", atom_keys(g.nodes, 2))
        add(g, "simplify", events_with_repeats(g.nodes, 1, stride=64, offset=seed()))
        add(g, "factorize", nonreflexive(events(g.nodes, 2, 1, stride=1) if len(g.nodes) <= 4 else events(g.nodes, 1, 1)))
    return jobs


def run() -> int:
    t = tier()
    rep = Report(PROP, "translation_validation")
    rep.functions = [
        "y0.algorithm.counterfactual_transport.ancestor_utils.minimize_counterfactual, get_ancestors_of_counterfactual, get_ancestral_components (run natively)",
        "y0.algorithm.counterfactual_transport.api.simplify (Algorithm 1) and helpers, minimize_event, do_counterfactual_factor_factorization, convert_to_counterfactual_factor_form, get_counterfactual_factors (run natively)",
        "Boolean L3: unit-level structural functions as symbolic truth tables (vf/sem/bool3.py); SymL3 response-type models for the factorisation (vf/sem/l3.py)",
        "RSI: get_ancestors_of_counterfactual, minimize_counterfactual (ancestor_utils.py) and the NxMixedGraph operations they call, translated from the current AST over a symbolic ADMG (vf/checks/c19_rsi.py)",
    ]
    rep.bounds = {
        "graphs": "ADMGs <=3 nodes exhaustive (quick: one labelling), a slice of the 4-node classes (quick 1/16, thorough 1/2), curated fig. 9 / front-door / napkin / Verma",
        "wide_components": "4-5 factual root variables on graphs whose bidirected edges form a spanning tree (4 nodes: all 16 trees) or a path (5 nodes), under EVERY insertion order of the bidirected edges, with and without one directed edge; X* = none / all / each single root (quick: every second graph)",
        "components": "W* of 1-3 variables with <=1 subscript each (one world per variable), every X* subset of W* (3-variable W*: a stride)",
        "minimize": "every (Y, subscript set) with <=2-3 subscripted variables, all polarities, reflexive subscripts included",
        "simplify": "events of <=3 atoms, subscripts <=1, repeated variables with equal or conflicting values included (3-atom events: a stride)",
        "factorize": "queries of <=2 atoms, subscripts <=1, without reflexive atoms (the factorisation is applied to outputs of SIMPLIFY)",
        "rsi": "Def. 2.1 ancestor sets and the minimised subscript set for Y = V0 with <=3 subscripted variables (reflexive subscripts and mixed polarities included; other choices are renamings): every ADMG on N nodes, N = 4 (quick), 4-5 (thorough)",
        "PYTHONHASHSEED": hashseed(),
    }
    rep.assumptions = [
        "'same random variable in every model' = equal value for every tuple of unit-level response functions (binary variables); 'same probability in every model' for two events over the same units = the same set of units (both decided by SAT)",
        "factorisation: the returned expression is read with the returned event's values for unmarked variables and literal subscripts unless Sum-bound (DESIGN §2); the alternative reading in which a '-V' subscript takes the event's value of V is evaluated as well and used only to attribute a violation to the known '+ value printed as -' finding",
        "Definition 2.1 ancestor sets and the syntactic result of minimisation are decided by z3 over symbolic graphs (RSI part; Variable.intervene(S) / CounterfactualVariable(interventions=S) on a guarded set S become one guarded alternative per subset); in addition ancestor sets are compared with a transcription of Definition 2.1 and ancestral components with a transcription of Definition 4.2 on the enumerated graphs (assertions on each output; the components are NOT solver-decided: the code builds sets of frozensets of computed counterfactual variables, which the relational interpreter does not represent); 'not disjoint' in Def. 4.2 is read at the level of graph vertices, as the implementation documents",
    ]
    rep.rule = "cases = one call of minimize_counterfactual / get_ancestors_of_counterfactual / simplify / do_counterfactual_factor_factorization; non-trivial = the function changed its input (dropped a subscript, removed or merged atoms) or produced a sum-product that the solver compared"
    for job, st, res in pmap(work, jobs_for(t)):
        if st != "ok":
            rep.harness_errors.append(short(res, 600))
            continue
        for r in res:
            rep.cases += 1
            g = GSpec.from_json(r["g"])
            key = f"{r['kind']} {g.key()} {r['input']}"
            rep.count(r["kind"] + ":" + r["status"])
            base = {"property": PROP, "graph": r["g"], "call": r["kind"], "q": r["q"], "hashseed": hashseed()}
            st_ = r["status"]
            if st_ == "crash":
                rep.add_violation(Violation(PROP, [key, f"crash:{r['kind']}:{r['exc'].split(':')[0]}"], f"{key} raised {r['exc']}", dict(base, kind="crash", exc=r["exc"])))
                continue
            if st_ in ("malformed", "differs"):
                rep.add_violation(Violation(PROP, [key], f"{key} returned {short(r.get('out'), 160)}" + (f", Definition {'4.2' if r['kind'] == 'components' else '2.1'} gives {short(r.get('want'), 160)}" if st_ == "differs" else " (not a well-formed variable/event)"), dict(base, kind=st_, out=r.get("out"))))
                continue
            if st_ in ("ok", "skip"):
                continue
            if st_ == "vocabulary":
                rep.add_violation(Violation(PROP, [key], f"{key} returned {short(r.get('out'), 140)}: {r.get('why')}", dict(base, kind="vocabulary", why=r.get("why"))))
                continue
            rep.obligations += 1
            rep.solver_s += r.get("secs", 0.0)
            if r.get("changed") or r["kind"] == "factorize":
                rep.nontrivial.add(key)
            if st_ == "unsat":
                rep.discharged += 1
                if len(rep.samples) < 9 and (r.get("changed") or r["kind"] == "factorize") and rep.cases % 13 == 0:
                    rep.add_sample({"case": key, "output": short(r.get("out"), 160), "verdict": "unsat"})
            elif st_ == "unknown":
                rep.inconclusive += 1
                rep.inconclusive_samples.append(key)
            elif st_ == "sat":
                rep.refuted += 1
                if not r.get("reproduced"):
                    rep.harness_errors.append(f"sat model did not replay: {key}")
                    continue
                keys = [key]
                if r["kind"] == "factorize" and r.get("alt") == "unsat":
                    keys.append(PLUS_KEY)
                if r["kind"] in ("simplify", "factorize"):
                    atoms = ev_from_json(r["q"])
                    if any(dict(s_).get(v) == val for v, s_, val in atoms):
                        # a tautology V_{..v..} = v (probability one) is rewritten to the factual event V = v
                        keys.append(REFL_KEY)
                    if r["kind"] == "factorize" and r.get("clash"):
                        keys.append(CLASH_KEY)
                    if r["kind"] == "factorize" and r.get("worlds"):
                        keys.append(WORLDS_KEY)
                what = f"{key} -> {short(r.get('out'), 140)}: " + (
                    f"a unit exists on which input is {r['v_in']} and output is {r['v_out']}" if r["kind"] != "factorize" else f"expression value {r['v_out']} != P(query) = {r['v_in']}"
                )
                rep.add_violation(Violation(PROP, keys, what, dict(base, kind="wrong", out_seen=r.get("out"), unit=r.get("unit"), params=r.get("params"), v_in=r.get("v_in"), v_out=r.get("v_out"))))
    # Definition 2.1 and subscript minimisation over symbolic graphs (RSI): solver-decided for all ADMGs on N nodes
    from .c19_rsi import rsi_jobs, rsi_work

    for job, st, r in pmap(rsi_work, rsi_jobs(t)):
        if st != "ok":
            rep.harness_errors.append(short(r, 600))
            continue
        rep.cases += 1
        key = f"rsi:{r['kind']} N={r['N']} {r.get('query')}"
        rep.count("rsi:" + r.get("status", r.get("verdict", "?")))
        if r.get("status") == "unsupported":
            # the transcription comparison above still covers these functions on the enumerated graphs
            rep.inconclusive += 1
            rep.inconclusive_samples.append(f"{key}: encoding cannot be built on this tree: {r['why']}")
            continue
        rep.obligations += 1
        rep.solver_s += r["solve_s"]
        if r["twin"] == "sat":
            rep.nontrivial.add(key)
        if r["verdict"] == "unsat":
            rep.discharged += 1
        elif r["verdict"] == "unknown":
            rep.inconclusive += 1
            rep.inconclusive_samples.append(key)
        else:
            rep.refuted += 1
            cex = r["cex"]
            if not cex["bad"]:
                rep.harness_errors.append(f"{key}: solver counterexample did not reproduce natively: {cex}")
                continue
            g = GSpec.from_json(cex["g"])
            call = "ancestors" if r["kind"] == "ancestors" else "minimize-syntactic"
            rep.add_violation(Violation(PROP, [f"{call} {g.key()} {cex['v']}{cex['s']}"], f"{call} {g.key()} {r.get('query')} returned {short(cex.get('out'), 160)}, the definition gives {short(cex.get('want'), 160)} (solver counterexample over all {r['N']}-node graphs, replayed)", {"property": PROP, "graph": cex["g"], "call": call, "q": [cex["v"], cex["s"]], "hashseed": hashseed(), "kind": "differs"}))
    if not rep.samples:
        rep.add_sample({"note": "no sample drawn"})
    from .. import history_runs

    history_runs.run(rep, PROP)
    return rep.finish()


def replay(payload: dict) -> int:
    if payload.get("kind") == "history":
        from .. import history_runs

        return history_runs.replay(PROP, payload)
    g = GSpec.from_json(payload["graph"])
    call, q = payload["call"], payload["q"]
    b = BoolL3(g)
    if call == "components":
        conv = lambda xs: tuple((v, tuple(tuple(p) for p in s_)) for v, s_ in xs)
        r = check_components(g, conv(q[0]), conv(q[1]))
    elif call == "minimize-syntactic":
        from y0.algorithm.counterfactual_transport.ancestor_utils import minimize_counterfactual
        from y0.dsl import CounterfactualVariable

        v, s = q[0], tuple(tuple(p) for p in q[1])
        try:
            o = minimize_counterfactual(y0_var(v, s), g.to_nx())
            got = (o.name, tuple(sorted((i.name, 1 if i.star else 0) for i in o.interventions)) if isinstance(o, CounterfactualVariable) else ())
            r = {"status": "ok" if got == def_minimize(g, v, s) else "differs", "out": str(got), "want": str(def_minimize(g, v, s))}
        except Exception as e:  # noqa: BLE001
            r = {"status": "crash", "exc": f"{type(e).__name__}: {e}"}
    elif call in ("minimize", "ancestors"):
        v, s = q[0], tuple(tuple(p) for p in q[1])
        r = check_minimize(g, b, v, s) if call == "minimize" else check_ancestors(g, v, s)
    elif call == "simplify":
        r = check_simplify(g, b, ev_from_json(q))
    else:
        model = SymL3(g)
        r = check_factorization(g, model, Denoter(model), ev_from_json(q), 30000)
    print({k: v for k, v in r.items() if k not in ("unit", "params")})
    bad = r["status"] in ("crash", "malformed", "differs", "vocabulary") or (r["status"] == "sat" and r.get("reproduced"))
    print("reproduced" if bad else "not reproduced")
    return 1 if bad else 0

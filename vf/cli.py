"""./check <id> [--tier quick|thorough] [--replay file]"""

from __future__ import annotations

import argparse
import importlib
import json
import os
import sys


def main() -> int:
    ap = argparse.ArgumentParser()
    ap.add_argument("prop")
    ap.add_argument("--tier", choices=["quick", "thorough"])
    ap.add_argument("--replay")
    args = ap.parse_args()
    if args.tier:
        os.environ["VERIF_TIER"] = args.tier
    prop = args.prop.upper()
    try:
        mod = importlib.import_module(f"vf.checks.{prop.lower()}")
    except ModuleNotFoundError as e:
        print(f"no check for {prop}: {e}")
        return 2
    if args.replay:
        return mod.replay(json.load(open(args.replay)))
    return mod.run()


if __name__ == "__main__":
    sys.exit(main())

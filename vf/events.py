"""Counterfactual events: atoms (V, do-set S, value v), enumeration, conversion to y0's Event dicts."""

from __future__ import annotations

import itertools as itt


def atom_keys(nodes, max_sub: int):
    """All (V, S) with S a consistent value assignment to <= max_sub nodes (S may mention V itself)."""
    nodes = list(nodes)
    out = []
    for v in nodes:
        for k in range(max_sub + 1):
            for names in itt.combinations(nodes, k):
                for vals in itt.product((0, 1), repeat=k):
                    out.append((v, tuple(zip(names, vals))))
    return out


def events(nodes, max_atoms: int, max_sub: int, max_worlds: int = 2, stride: int = 1, offset: int = 0):
    """Conjunctions of <= max_atoms atoms over distinct (V, S) keys, all value polarities."""
    keys = atom_keys(nodes, max_sub)
    i = 0
    for k in range(1, max_atoms + 1):
        for ks in itt.combinations(keys, k):
            worlds = {s for _, s in ks if s}
            if len(worlds) > max_worlds:
                continue
            for vals in itt.product((0, 1), repeat=k):
                i += 1
                if k >= 3 and i % stride != offset % stride:
                    continue
                yield tuple((v, s, val) for (v, s), val in zip(ks, vals))


def to_y0_event(ev):
    from y0.dsl import Intervention, Variable

    out = {}
    for v, s, val in ev:
        var = Variable(v)
        if s:
            var = var.intervene([Intervention(n, star=bool(x)) for n, x in s])
        out[var] = Intervention(v, star=bool(val))
    return out


def from_y0_event(event):
    """y0 Event dict -> tuple of atoms; value marks: -V -> 0, +V -> 1."""
    from y0.dsl import CounterfactualVariable

    out = []
    for var, val in event.items():
        s = ()
        if isinstance(var, CounterfactualVariable):
            s = tuple(sorted((i.name, 1 if i.star else 0) for i in var.interventions))
        out.append((var.name, s, 1 if val.star else 0))
    return tuple(sorted(out))


def atoms_for_model(ev):
    return [(v, dict(s), val) for v, s, val in ev]


def ev_str(ev) -> str:
    parts = []
    for v, s, val in ev:
        sub = ",".join(f"{n}={x}" for n, x in s)
        parts.append(f"{v}{'[' + sub + ']' if sub else ''}={val}")
    return " & ".join(parts)


def event_env(ev):
    """Values the event assigns to base variables; ambiguous = bases with two different values."""
    env, amb = {}, set()
    for v, s, val in ev:
        if v in env and env[v] != val:
            amb.add(v)
        env.setdefault(v, val)
    return env, amb

"""FreeDist: graph-free worlds for expression-level properties (C10, C12, C13).

Every (population, intervention assignment) has its own free positive joint over the variable
names not intervened on; atoms are z3 Reals (last atom = 1 - sum of the others).  Q-factors are
uninterpreted positive functions of the values of their domain variables.
"""

from __future__ import annotations

import itertools as itt
from fractions import Fraction as Fr

import z3

from .l2 import pname
from .rat import ONE, Rat


def cw_key(atoms):
    """Canonical atom tuple ((name, do-items, value), ...) or None when contradictory."""
    seen = {}
    for n, do, v in atoms:
        d = tuple(sorted(do.items())) if isinstance(do, dict) else tuple(do)
        if dict(d).get(n, v) != v:
            return None  # X_{x'} = x with x != x'
        if n in dict(d):
            continue  # X_x = x holds surely
        if seen.get((n, d), v) != v:
            return None
        seen[(n, d)] = v
    return tuple(sorted((n, d, v) for (n, d), v in seen.items()))


class SymFree:
    def __init__(self, names, card: dict | None = None):
        self.names = sorted(names)
        self.card = {n: 2 for n in self.names}
        if card:
            self.card.update(card)
        self.params: dict = {}
        self.constraints: list = []
        self._tables: dict = {}
        self._q: dict = {}
        self.used_cw = False

    def _table(self, pop, do: dict):
        key = pname("fd", pop, ",".join(f"{k}={v}" for k, v in sorted(do.items())))
        t = self._tables.get(key)
        if t is None:
            free = [n for n in self.names if n not in do]
            cells = list(itt.product(*[range(self.card[n]) for n in free]))
            atoms = []
            for j in range(len(cells) - 1):
                nm = pname(key, j)
                v = z3.Real(nm)
                self.params[nm] = v
                self.constraints.append(v > 0)
                atoms.append(v)
            if atoms:
                last = ONE - (z3.Sum(atoms) if len(atoms) > 1 else atoms[0])
                self.constraints.append(last > 0)
                atoms.append(last)
            else:
                atoms = [ONE]
            t = (free, dict(zip(cells, atoms)))
            self._tables[key] = t
        return t

    def prob_rat(self, pop, do: dict, assign: dict) -> Rat:
        assign = dict(assign)
        for k in list(assign):
            if k in do:
                if do[k] != assign[k]:
                    return Rat(None)
                del assign[k]
        if not assign:
            return Rat(())
        free, table = self._table(pop, do)
        for k in assign:
            if k not in free:
                raise KeyError(k)
        terms = [a for cell, a in table.items() if all(cell[free.index(k)] == v for k, v in assign.items())]
        return Rat((terms[0] if len(terms) == 1 else z3.Sum(terms),))

    def prob_cw(self, pop, atoms) -> Rat:
        """Cross-world joint: an uninterpreted positive function of the (sorted) atom set.

        Sound for proving equalities (they then hold under every interpretation); a 'sat' that
        involves such a term may be spurious and is reported as inconclusive by the callers."""
        key = cw_key(atoms)
        if key is None:
            return Rat(None)
        dos = {a[1] for a in key}
        if len(dos) == 1:
            return self.prob_rat(pop, dict(next(iter(dos))), {n: v for n, _, v in key})
        self.used_cw = True
        nm = pname("cw", pop, ";".join(f"{n}@{','.join(f'{k}={x}' for k, x in d)}={v}" for n, d, v in key))
        v = self._q.get(nm)
        if v is None:
            v = z3.Real(nm)
            self.params[nm] = v
            self.constraints.append(v > 0)
            self._q[nm] = v
        return Rat((v,))

    def qfactor(self, cod, dom, vals) -> Rat:
        nm = pname("q", ",".join(cod), ",".join(dom), "".join(map(str, vals)))
        v = self._q.get(nm)
        if v is None:
            v = z3.Real(nm)
            self.params[nm] = v
            self.constraints.append(v > 0)
            self._q[nm] = v
        return Rat((v,))

    def model_to_params(self, model) -> dict:
        out = {}
        for nm, v in self.params.items():
            val = model.eval(v, model_completion=True)
            if z3.is_rational_value(val):
                out[nm] = Fr(val.numerator_as_long(), val.denominator_as_long())
            elif z3.is_algebraic_value(val):
                a = val.approx(30)
                out[nm] = Fr(a.numerator_as_long(), a.denominator_as_long())
            else:
                out[nm] = Fr(1, 3)
        return out


class ExactFree:
    """Concrete counterpart (independent code path: plain dictionaries of Fractions)."""

    def __init__(self, names, params: dict, card: dict | None = None):
        self.names = sorted(names)
        self.card = {n: 2 for n in self.names}
        if card:
            self.card.update(card)
        self.params = params

    def prob(self, pop, do: dict, assign: dict) -> Fr:
        free = [n for n in self.names if n not in do]
        cells = list(itt.product(*[range(self.card[n]) for n in free]))
        key = "fd|%s|%s" % (pop, ",".join(f"{k}={v}" for k, v in sorted(do.items())))
        default = Fr(1, max(len(cells), 1))
        vals = [self.params.get(f"{key}|{j}", default) for j in range(len(cells) - 1)]
        vals.append(1 - sum(vals))
        tot = Fr(0)
        for cell, p in zip(cells, vals):
            if all(cell[free.index(k)] == v for k, v in assign.items()):
                tot += p
        return tot

    def prob_cw(self, pop, atoms) -> Fr:
        key = cw_key(atoms)
        if key is None:
            return Fr(0)
        if not key:
            return Fr(1)
        dos = {a[1] for a in key}
        if len(dos) == 1:
            return self.prob(pop, dict(next(iter(dos))), {n: v for n, _, v in key})
        nm = "cw|%s|%s" % (pop, ";".join(f"{n}@{','.join(f'{k}={x}' for k, x in d)}={v}" for n, d, v in key))
        return self.params.get(nm, Fr(1, 5))

    def qfactor(self, cod, dom, vals) -> Fr:
        nm = "q|%s|%s|%s" % (",".join(cod), ",".join(dom), "".join(map(str, vals)))
        return self.params.get(nm, Fr(1, 3))


# --------------------------------------------------------------------------- one joint over counterfactual variables
# Expressions that contain a term mixing worlds (P(Y_x, Y, Z)) are evaluated over ONE free positive joint whose
# coordinates are the distinct counterfactual variables (name, intervention assignment) that the compared expressions
# mention: every probability term, single-world or not, is a marginal of it.  Distinct counterfactual variables are
# treated as distinct random variables with an arbitrary joint, which is exactly the setting of the probability-calculus
# identities of C10/C12/C13 (no structural axioms are assumed, so an identity that holds here holds in every model).
MAX_COORDS = 7


class CoordRecorder:
    """First pass: records which (population, name, do) coordinates the expressions ask for."""

    def __init__(self, names, card=None):
        self.card = {n: 2 for n in names}
        if card:
            self.card.update(card)
        self.coords: dict = {}
        self.used_cw = False

    def _note(self, pop, atoms):
        for n, do, _ in atoms:
            d = tuple(sorted(do.items())) if isinstance(do, dict) else tuple(do)
            if n not in dict(d):
                self.coords.setdefault(pop, set()).add((n, d))

    def prob_rat(self, pop, do, assign):
        self._note(pop, [(n, do, v) for n, v in assign.items()])
        return Rat.const(1)

    def prob(self, pop, do, assign):
        self._note(pop, [(n, do, v) for n, v in assign.items()])
        return Fr(1)

    def prob_cw(self, pop, atoms):
        if len({tuple(sorted(a[1].items())) if isinstance(a[1], dict) else tuple(a[1]) for a in atoms}) > 1:
            self.used_cw = True
        self._note(pop, atoms)
        return Rat.const(1)

    def qfactor(self, cod, dom, vals):
        return Rat.const(1)

    def frozen(self):
        return {pop: tuple(sorted(cs)) for pop, cs in sorted(self.coords.items())}


def _cw_cells(coords, card):
    return list(itt.product(*[range(card[n]) for n, _ in coords]))


class SymFreeCW(SymFree):
    def __init__(self, names, coords: dict, card=None):
        super().__init__(names, card)
        self.coords = coords
        self._joint: dict = {}

    def _joint_table(self, pop):
        t = self._joint.get(pop)
        if t is None:
            cs = self.coords[pop]
            cells = _cw_cells(cs, self.card)
            atoms = []
            for j in range(len(cells) - 1):
                nm = pname("cwj", pop, j)
                v = z3.Real(nm)
                self.params[nm] = v
                self.constraints.append(v > 0)
                atoms.append(v)
            if atoms:
                last = ONE - (z3.Sum(atoms) if len(atoms) > 1 else atoms[0])
                self.constraints.append(last > 0)
                atoms.append(last)
            else:
                atoms = [ONE]
            t = (cs, dict(zip(cells, atoms)))
            self._joint[pop] = t
        return t

    def prob_cw(self, pop, atoms) -> Rat:
        key = cw_key(atoms)
        if key is None:
            return Rat(None)
        if not key:
            return Rat(())
        cs, table = self._joint_table(pop)
        idx = {c: i for i, c in enumerate(cs)}
        want = {idx[(n, d)]: v for n, d, v in key}
        terms = [a for cell, a in table.items() if all(cell[i] == v for i, v in want.items())]
        return Rat((terms[0] if len(terms) == 1 else z3.Sum(terms),))

    def prob_rat(self, pop, do: dict, assign: dict) -> Rat:
        return self.prob_cw(pop, [(n, do, v) for n, v in assign.items()])


class ExactFreeCW(ExactFree):
    def __init__(self, names, params: dict, coords: dict, card=None):
        super().__init__(names, params, card)
        self.coords = coords

    def prob_cw(self, pop, atoms) -> Fr:
        key = cw_key(atoms)
        if key is None:
            return Fr(0)
        if not key:
            return Fr(1)
        cs = self.coords[pop]
        cells = _cw_cells(cs, self.card)
        default = Fr(1, max(len(cells), 1))
        vals = [self.params.get(f"cwj|{pop}|{j}", default) for j in range(len(cells) - 1)]
        vals.append(1 - sum(vals))
        idx = {c: i for i, c in enumerate(cs)}
        want = {idx[(n, d)]: v for n, d, v in key}
        return sum((p for cell, p in zip(cells, vals) if all(cell[i] == v for i, v in want.items())), Fr(0))

    def prob(self, pop, do: dict, assign: dict) -> Fr:
        return self.prob_cw(pop, [(n, do, v) for n, v in assign.items()])

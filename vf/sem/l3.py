"""ScmL3: symbolic *functional* models (level 3) for binary variables.

Every observed V with parent configurations c_0..c_{m-1} (m = 2^{|pa|}) has a response type
(V_{c_0}, ..., V_{c_{m-1}}) in {0,1}^m whose distribution given the incident latents is free and
positive.  It is parametrised by its moments  mu_S = P(V_c = 1 for all c in S | u)  (S a non-empty
set of configurations), so that the single-world conditional P(V=1 | pa=c, u) is the *parameter*
mu_{c} (level-2 polynomials stay as small as in ScmL2) and joint cross-world probabilities are
inclusion-exclusion sums of moments.  All 2^m atoms are constrained > 0, which makes the class
exactly "all positive response-type models with these latents".  All worlds share (u, r).
"""

from __future__ import annotations

import itertools as itt

import z3

from ..graphs import GSpec
from .l2 import TARGET, SymL2, pname
from .rat import ONE, ZERO, Rat, add, mul


def subsets(items):
    items = list(items)
    for k in range(len(items) + 1):
        yield from itt.combinations(items, k)


class SymL3(SymL2):
    def __init__(self, g: GSpec, differs: dict | None = None, max_indegree: int = 3, policy: dict | None = None):
        super().__init__(g, differs=differs, policy=policy)
        for n in g.nodes:
            if len(self.pa[n]) > max_indegree:
                raise ValueError(f"in-degree of {n} exceeds {max_indegree}")
        self._mu_done: set = set()
        self._f_cache: dict = {}
        self._cw_cache: dict = {}

    # -- parameters -------------------------------------------------------------------
    def _cfg_index(self, v, pa_vals) -> int:
        idx = 0
        for b in pa_vals:
            idx = idx * 2 + b
        return idx

    def mu(self, pop, v, S: tuple, u_vals: tuple):
        """Moment parameter mu_S for node v (S: sorted tuple of config indices, non-empty)."""
        owner = pop if (pop != TARGET and v in self.differs.get(pop, ())) else TARGET
        base = pname("mu", owner, v, "".join(map(str, u_vals)))
        if base not in self._mu_done:
            self._mu_done.add(base)
            m = 2 ** len(self.pa[v])
            for T in subsets(range(m)):
                if T:
                    nm = pname(base, ",".join(map(str, T)))
                    self.params[nm] = z3.Real(nm)
            # positivity of every atom of the response-type distribution
            for bits in itt.product((0, 1), repeat=m):
                ones = tuple(i for i in range(m) if bits[i])
                zeros = tuple(i for i in range(m) if not bits[i])
                self.constraints.append(self._incl_excl(base, ones, zeros) > 0)
        return self.params[pname(base, ",".join(map(str, S)))]

    def _incl_excl(self, base, ones, zeros):
        total = ZERO
        for T in subsets(zeros):
            S = tuple(sorted(set(ones) | set(T)))
            term = ONE if not S else self.params[pname(base, ",".join(map(str, S)))]
            total = total + term if len(T) % 2 == 0 else total - term
        return total

    def theta(self, pop, v, val, pa_vals, u_vals):
        if v in self.policy.get(pop, ()):
            return self._row(pname("sig", pop, v), 2)[val]
        m = self.mu(pop, v, (self._cfg_index(v, pa_vals),), u_vals)
        return m if val == 1 else ONE - m

    def joint_response(self, pop, v, pairs: tuple, u_vals: tuple):
        """P( V_{c} = b for (c, b) in pairs | u ); pairs = sorted ((config index, value), ...), distinct configs."""
        key = (pop if v in self.differs.get(pop, ()) else TARGET, v, pairs, u_vals)
        hit = self._f_cache.get(key)
        if hit is None:
            self.mu(pop, v, (0,), u_vals)  # make sure the parameters exist
            owner = pop if (pop != TARGET and v in self.differs.get(pop, ())) else TARGET
            base = pname("mu", owner, v, "".join(map(str, u_vals)))
            ones = tuple(c for c, b in pairs if b == 1)
            zeros = tuple(c for c, b in pairs if b == 0)
            hit = self._incl_excl(base, ones, zeros)
            self._f_cache[key] = hit
        return hit

    # -- cross-world probabilities ------------------------------------------------------
    def prob_cw(self, pop, atoms) -> Rat:
        """P( AND_i  V_i[do(s_i)] = v_i );  atoms = [(name, do: dict|items, value)]."""
        norm = []
        for n, do, v in atoms:
            d = dict(do)
            if n in d:
                if d[n] != v:
                    return Rat(None)
                continue
            norm.append((n, tuple(sorted(d.items())), v))
        norm = sorted(set(norm))
        if not norm:
            return Rat(())
        key = (pop, tuple(norm))
        if key in self._cw_cache:
            return self._cw_cache[key]
        out = self._prob_cw(pop, norm)
        self._cw_cache[key] = out
        return out

    def _prob_cw(self, pop, atoms) -> Rat:
        g = self.g
        worlds = sorted({a[1] for a in atoms})
        fixed = {}
        for n, w, v in atoms:
            if fixed.get((n, w), v) != v:
                return Rat(None)
            fixed[(n, w)] = v
        # relevant (variable, world) pairs: ancestors of the atom variables inside each world
        rel = []
        for w in worlds:
            dset = set(dict(w))
            targets = [n for n, ww, _ in atoms if ww == w]
            anc = g.ancestors(targets, removed_in=dset)
            rel += [(n, w) for n in g.nodes if n in anc and n not in dset]
        free = [p for p in rel if p not in fixed]
        rel_nodes = [n for n in g.nodes if any(p[0] == n for p in rel)]
        relset = set(rel_nodes)
        comps = GSpec(tuple(rel_nodes), (), tuple(e for e in g.bi if e[0] in relset and e[1] in relset)).districts()
        comp_info = []
        for c in comps:
            c_nodes = tuple(n for n in rel_nodes if n in c)
            lats = tuple(sorted({i for n in c_nodes for i in self.inc[n]}))
            comp_info.append((c_nodes, lats))
        worlds_of = {n: [w for (m, w) in rel if m == n] for n in rel_nodes}
        qcache: dict = {}
        total = ZERO
        any_term = False
        for vals in itt.product((0, 1), repeat=len(free)):
            a = dict(fixed)
            a.update(zip(free, vals))
            # response pattern demanded of every node: {config index: value}
            pattern = {}
            ok = True
            for n in rel_nodes:
                req = {}
                for w in worlds_of[n]:
                    dw = dict(w)
                    cfg = self._cfg_index(n, tuple(dw[p] if p in dw else a[(p, w)] for p in self.pa[n]))
                    val = a[(n, w)]
                    if req.get(cfg, val) != val:
                        ok = False
                        break
                    req[cfg] = val
                if not ok:
                    break
                pattern[n] = tuple(sorted(req.items()))
            if not ok:
                continue
            any_term = True
            term = ONE
            for c_nodes, lats in comp_info:
                qk = (c_nodes, tuple(pattern[n] for n in c_nodes))
                q = qcache.get(qk)
                if q is None:
                    q = ZERO
                    for us in itt.product((0, 1), repeat=len(lats)):
                        u = dict(zip(lats, us))
                        t = ONE
                        for i in lats:
                            t = mul(t, self.lam(i, u[i]))
                        for n in c_nodes:
                            t = mul(t, self.joint_response(pop, n, pattern[n], tuple(u[i] for i in self.inc[n])))
                        q = add(q, t)
                    qcache[qk] = q
                term = mul(term, q)
            total = add(total, term)
        if not any_term:
            return Rat(None)
        return Rat((total,))

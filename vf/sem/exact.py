"""Independent exact-arithmetic evaluator used for every replay (fractions.Fraction).

Deliberately shares no code with l2.py / denote.py beyond the parameter naming: the joint
distribution of a concrete model is built by brute-force enumeration of all latent and
observed values (no ancestor pruning, no component factorisation) and expressions are
evaluated by a separate recursive walker.
"""

from __future__ import annotations

import itertools as itt
from fractions import Fraction as Fr

from ..graphs import GSpec

TARGET = "pi*"


class Undefined(Exception):
    """The expression has no value on this model (0/0, ill-scoped, out of vocabulary)."""


class ExactL2:
    def __init__(self, g: GSpec, params: dict, card: dict | None = None, lat_card: int = 2, differs: dict | None = None, policy: dict | None = None):
        self.g = g
        self.policy = {k: set(v) for k, v in (policy or {}).items()}
        self.params = params
        self.card = {n: 2 for n in g.nodes}
        if card:
            self.card.update(card)
        self.lat_card = lat_card
        self.differs = {k: set(v) for k, v in (differs or {}).items()}
        self._joint_cache = {}

    def _row(self, key, k, j):
        vals = [self.params.get(f"{key}|{i}", Fr(1, k)) for i in range(k - 1)]
        return vals[j] if j < k - 1 else 1 - sum(vals)

    def _theta(self, pop, v, val, pa_vals, u_vals):
        if v in self.policy.get(pop, ()):
            return self._row("sig|%s|%s" % (pop, v), self.card[v], val)
        owner = pop if (pop != TARGET and v in self.differs.get(pop, ())) else TARGET
        key = "th|%s|%s|%s|%s" % (owner, v, "".join(map(str, pa_vals)), "".join(map(str, u_vals)))
        return self._row(key, self.card[v], val)

    def joint(self, pop, do: dict):
        """Full table {assignment tuple over g.nodes: probability} under do()."""
        ck = (pop, tuple(sorted(do.items())))
        if ck in self._joint_cache:
            return self._joint_cache[ck]
        g = self.g
        nodes = list(g.nodes)
        lat = list(range(len(g.bi)))
        table = {}
        free = [n for n in nodes if n not in do]
        for vs in itt.product(*[range(self.card[n]) for n in free]):
            val = dict(do)
            val.update(zip(free, vs))
            tot = Fr(0)
            for us in itt.product(range(self.lat_card), repeat=len(lat)):
                w = Fr(1)
                for i in lat:
                    w *= self._row(f"lam|{i}", self.lat_card, us[i])
                for n in free:
                    pav = tuple(val[p] for p in g.parents(n))
                    uv = tuple(us[i] for i in lat if n in g.bi[i])
                    w *= self._theta(pop, n, val[n], pav, uv)
                    if w == 0:
                        break
                tot += w
            table[tuple(val[n] for n in nodes)] = tot
        self._joint_cache[ck] = table
        return table

    def prob(self, pop, do: dict, assign: dict) -> Fr:
        idx = {n: i for i, n in enumerate(self.g.nodes)}
        tot = Fr(0)
        for row, p in self.joint(pop, do).items():
            if all(row[idx[k]] == v for k, v in assign.items()):
                tot += p
        return tot


def evaluate(e, world, env: dict, ienv: dict | None = None, default_pop: str = TARGET, bound=frozenset()) -> Fr:
    """Value of a y0 expression on a concrete world (see DESIGN §2 for the reading)."""
    from y0 import dsl

    if ienv is None:
        ienv = env
    if isinstance(e, dsl.One):
        return Fr(1)
    if isinstance(e, dsl.Zero):
        return Fr(0)
    if isinstance(e, dsl.Product):
        out = Fr(1)
        for f in e.expressions:
            out *= evaluate(f, world, env, ienv, default_pop, bound)
        return out
    if isinstance(e, dsl.Fraction):
        d = evaluate(e.denominator, world, env, ienv, default_pop, bound)
        if d == 0:
            raise Undefined("division by zero")
        return evaluate(e.numerator, world, env, ienv, default_pop, bound) / d
    if isinstance(e, dsl.Sum):
        names = sorted(r.name for r in e.ranges)
        out = Fr(0)
        for vals in itt.product(*[range(world.card[n]) for n in names]):
            e2 = {**env, **dict(zip(names, vals))}
            i2 = {**ienv, **dict(zip(names, vals))}
            out += evaluate(e.expression, world, e2, i2, default_pop, bound | set(names))
        return out
    if isinstance(e, dsl.QFactor):
        dom = tuple(sorted(v.name for v in e.domain))
        cod = tuple(sorted(v.name for v in e.codomain))
        return world.qfactor(cod, dom, tuple(env[n] for n in dom))
    if isinstance(e, dsl.Probability):
        pop = e.population.name if isinstance(e, dsl.PopulationProbability) else default_pop

        def occ(v):
            if v.star is None:
                if v.name not in env:
                    raise Undefined(f"free variable {v.name}")
                val = env[v.name]
            else:
                if v.name in bound:
                    raise Undefined("ill-scoped")
                val = 1 if v.star else 0
            do = {}
            if isinstance(v, dsl.CounterfactualVariable):
                for i in v.interventions:
                    do[i.name] = 1 if i.star else ienv.get(i.name, 0)
            return v.name, tuple(sorted(do.items())), val

        ch = [occ(v) for v in e.children]
        pa = [occ(v) for v in e.parents]
        worlds = {a[1] for a in ch + pa}
        if len(worlds) == 1:
            do = dict(next(iter(worlds)))

            def pr(atoms):
                a = {}
                for n, _, v in atoms:
                    if a.get(n, v) != v:
                        return Fr(0)
                    a[n] = v
                for n, v in a.items():
                    if n in do and do[n] != v:
                        return Fr(0)
                return world.prob(pop, do, {n: v for n, v in a.items() if n not in do})

            num = pr(ch + pa)
            if not pa:
                return num
            den = pr(pa)
            if den == 0:
                raise Undefined("conditioning on a null event")
            return num / den
        if not hasattr(world, "prob_cw"):
            raise Undefined("cross-world term")
        num = world.prob_cw(pop, ch + pa)
        if not pa:
            return num
        den = world.prob_cw(pop, pa)
        if den == 0:
            raise Undefined("conditioning on a null event")
        return num / den
    raise Undefined(f"unknown expression {type(e).__name__}")


class ExactL3:
    """Concrete functional model: explicit response-type distributions, brute-force enumeration.

    P(r_V | u) is recovered from the moment parameters mu|owner|V|u|S by Moebius inversion;
    every probability (single- or cross-world) is the total weight of the (u, r) pairs whose
    *evaluated* structural equations satisfy all atoms.
    """

    def __init__(self, g: GSpec, params: dict, differs: dict | None = None, policy: dict | None = None):
        self.g = g
        self.params = params
        self.policy = {k: set(v) for k, v in (policy or {}).items()}
        self.card = {n: 2 for n in g.nodes}
        self.differs = {k: set(v) for k, v in (differs or {}).items()}
        self._tab = {}

    def _mu(self, owner, v, u_vals, S):
        if not S:
            return Fr(1)
        nm = "mu|%s|%s|%s|%s" % (owner, v, "".join(map(str, u_vals)), ",".join(map(str, S)))
        if nm in self.params:
            return self.params[nm]
        return Fr(1, 2) ** len(S)  # default: independent fair responses

    def _rt_prob(self, pop, v, r: tuple, u_vals):
        if v in self.policy.get(pop, ()):
            # a policy variable ignores its parents: constant response functions only
            p0 = self.params.get("sig|%s|%s|0" % (pop, v), Fr(1, 2))
            if all(b == 0 for b in r):
                return p0
            if all(b == 1 for b in r):
                return 1 - p0
            return Fr(0)
        owner = pop if (pop != TARGET and v in self.differs.get(pop, ())) else TARGET
        ones = [i for i, b in enumerate(r) if b]
        zeros = [i for i, b in enumerate(r) if not b]
        tot = Fr(0)
        for k in range(len(zeros) + 1):
            for T in itt.combinations(zeros, k):
                tot += (-1) ** k * self._mu(owner, v, u_vals, tuple(sorted(ones + list(T))))
        return tot

    def _lam(self, i, val):
        p = self.params.get(f"lam|{i}|0", Fr(1, 2))
        return p if val == 0 else 1 - p

    def table(self, pop):
        """List of (weight, r: {node: response tuple}) over all (u, r)."""
        if pop in self._tab:
            return self._tab[pop]
        g = self.g
        nodes = list(g.nodes)
        lat = list(range(len(g.bi)))
        rows = []
        rts = [list(itt.product((0, 1), repeat=2 ** len(g.parents(n)))) for n in nodes]
        for us in itt.product((0, 1), repeat=len(lat)):
            wu = Fr(1)
            for i in lat:
                wu *= self._lam(i, us[i])
            per_node = []
            for n, choices in zip(nodes, rts):
                uv = tuple(us[i] for i in lat if n in g.bi[i])
                per_node.append([(r, self._rt_prob(pop, n, r, uv)) for r in choices])
            for combo in itt.product(*per_node):
                w = wu
                for _, p in combo:
                    w *= p
                rows.append((w, {n: r for n, (r, _) in zip(nodes, combo)}))
        self._tab[pop] = rows
        return rows

    def _val(self, r, n, do, memo):
        if n in do:
            return do[n]
        if n in memo:
            return memo[n]
        idx = 0
        for p in self.g.parents(n):
            idx = idx * 2 + self._val(r, p, do, memo)
        memo[n] = r[n][idx]
        return memo[n]

    def prob_cw(self, pop, atoms) -> Fr:
        tot = Fr(0)
        for w, r in self.table(pop):
            memos = {}
            ok = True
            for n, do, v in atoms:
                d = dict(do)
                key = tuple(sorted(d.items()))
                if self._val(r, n, d, memos.setdefault(key, {})) != v:
                    ok = False
                    break
            if ok:
                tot += w
        return tot

    def prob(self, pop, do: dict, assign: dict) -> Fr:
        return self.prob_cw(pop, [(n, do, v) for n, v in assign.items()])

"""ScmL2: symbolic semi-Markovian models for level-1/2 quantities.

One latent U_e per bidirected edge e; for every observed V a conditional table
P(v | pa(V), u_inc(V)).  All free parameters are z3 Reals in (0,1); the last value of
every row is 1 - (sum of the others), so normalisation holds by construction and
P_x(partial assignment) is a polynomial in the free parameters (truncated factorisation).

Several *domains* can share parameters (multi-domain families for transport): a domain
is a tag; `differs[tag]` lists the nodes whose tables are private to that domain.
"""

from __future__ import annotations

import itertools as itt

import z3

from ..graphs import GSpec
from .rat import ONE, ZERO, Rat, add, mul

TARGET = "pi*"


def pname(kind: str, *parts) -> str:
    return kind + "|" + "|".join(str(p) for p in parts)


class SymL2:
    def __init__(self, g: GSpec, card: dict | None = None, lat_card: int = 2, differs: dict | None = None, policy: dict | None = None):
        self.g = g
        self.card = {n: 2 for n in g.nodes}
        if card:
            self.card.update(card)
        self.lat_card = lat_card
        self.latents = [tuple(e) for e in g.bi]  # latent i sits on bidirected edge i
        self.inc = {n: [i for i, e in enumerate(self.latents) if n in e] for n in g.nodes}
        self.pa = {n: g.parents(n) for n in g.nodes}
        self.differs = {k: set(v) for k, v in (differs or {}).items()}
        # policy[pop]: variables that domain `pop` sets by a stochastic policy sigma (a fresh marginal distribution,
        # independent of the variable's parents and latents)
        self.policy = {k: set(v) for k, v in (policy or {}).items()}
        self.params: dict[str, z3.ExprRef] = {}
        self.constraints: list = []
        self._row_cache: dict = {}
        self._q_cache: dict = {}
        self._p_cache: dict = {}

    # -- parameters -------------------------------------------------------------------
    def _row(self, key: str, k: int):
        """A symbolic probability vector of length k (positive entries, sums to one)."""
        row = self._row_cache.get(key)
        if row is None:
            free = []
            for j in range(k - 1):
                nm = pname(key, j)
                v = z3.Real(nm)
                self.params[nm] = v
                self.constraints.append(v > 0)
                free.append(v)
            last = ONE - z3.Sum(free) if len(free) > 1 else ONE - free[0]
            if k > 2:
                self.constraints.append(last > 0)
            else:
                self.constraints.append(free[0] < 1)
            row = free + [last]
            self._row_cache[key] = row
        return row

    def lam(self, i: int, val: int):
        return self._row(pname("lam", i), self.lat_card)[val]

    def theta(self, pop: str, v: str, val: int, pa_vals: tuple, u_vals: tuple):
        if v in self.policy.get(pop, ()):
            return self._row(pname("sig", pop, v), self.card[v])[val]
        owner = pop if (pop != TARGET and v in self.differs.get(pop, ())) else TARGET
        key = pname("th", owner, v, "".join(map(str, pa_vals)), "".join(map(str, u_vals)))
        return self._row(key, self.card[v])[val]

    # -- probabilities ----------------------------------------------------------------
    def _q(self, pop, comp: tuple, lats: tuple, vals: dict):
        """Sum over the latents *lats* of prod(lam) * prod_{V in comp} theta(V | pa, u)."""
        key = (pop if any(v in self.differs.get(pop, ()) or v in self.policy.get(pop, ()) for v in comp) else TARGET, comp, lats,
               tuple(sorted((k, vals[k]) for k in set(comp) | {p for v in comp for p in self.pa[v]})))
        hit = self._q_cache.get(key)
        if hit is not None:
            return hit
        total = ZERO
        for us in itt.product(range(self.lat_card), repeat=len(lats)):
            u = dict(zip(lats, us))
            term = ONE
            for i in lats:
                term = mul(term, self.lam(i, u[i]))
            for v in comp:
                pa_vals = tuple(vals[p] for p in self.pa[v])
                u_vals = tuple(u[i] for i in self.inc[v])
                term = mul(term, self.theta(pop, v, vals[v], pa_vals, u_vals))
            total = add(total, term)
        self._q_cache[key] = total
        return total

    def prob(self, pop: str, do: dict, assign: dict):
        """P^pop_{do}(assign) as a polynomial (z3 expr); a python 0 when structurally impossible."""
        assign = dict(assign)
        for k in list(assign):
            if k in do:
                if do[k] != assign[k]:
                    return 0
                del assign[k]
        if not assign:
            return ()
        key = (pop, tuple(sorted(do.items())), tuple(sorted(assign.items())))
        hit = self._p_cache.get(key)
        if hit is not None:
            return hit
        g = self.g
        rel = [n for n in g.nodes if n in g.ancestors(assign.keys(), removed_in=set(do)) and n not in do]
        relset = set(rel)
        # components of rel under latents with both endpoints in rel
        comps = GSpec(tuple(rel), (), tuple(e for e in g.bi if e[0] in relset and e[1] in relset)).districts()
        comp_info = []
        for c in comps:
            c_nodes = tuple(n for n in rel if n in c)
            lats = tuple(sorted({i for n in c_nodes for i in self.inc[n]}))
            comp_info.append((c_nodes, lats))
        hidden = [n for n in rel if n not in assign]
        hid = set(hidden)
        base = dict(do)
        base.update(assign)
        # group components that share hidden variables; every group gives one positive factor
        scope = [set(c) | {p for v in c for p in self.pa[v]} for c, _ in comp_info]
        groups: list = []  # (component indices, hidden vars)
        for i, sc in enumerate(scope):
            h = sc & hid
            merged = ([i], set(h))
            rest = []
            for gi, gh in groups:
                if gh & merged[1]:
                    merged = (merged[0] + gi, merged[1] | gh)
                else:
                    rest.append((gi, gh))
            groups = rest + [merged]
        # hidden variables never mentioned by any component cannot occur (each is in its own component)
        factors = []
        for gi, gh in groups:
            gh = sorted(gh)
            total = ZERO
            for hv in itt.product(*[range(self.card[h]) for h in gh]):
                vals = dict(base)
                vals.update(zip(gh, hv))
                term = ONE
                for i in gi:
                    c_nodes, lats = comp_info[i]
                    term = mul(term, self._q(pop, c_nodes, lats, vals))
                total = add(total, term)
            factors.append(total)
        factors = tuple(factors)
        self._p_cache[key] = factors
        return factors

    def prob_rat(self, pop, do, assign) -> Rat:
        p = self.prob(pop, do, assign)
        return Rat(None) if isinstance(p, int) and p == 0 else Rat(p)

    # -- concrete models --------------------------------------------------------------
    def model_to_params(self, model) -> dict:
        """Extract exact rational parameter values from a z3 model (algebraic -> approx rational)."""
        from fractions import Fraction

        out = {}
        for nm, v in self.params.items():
            val = model.eval(v, model_completion=True)
            if z3.is_rational_value(val):
                out[nm] = Fraction(val.numerator_as_long(), val.denominator_as_long())
            elif z3.is_algebraic_value(val):
                a = val.approx(30)
                out[nm] = Fraction(a.numerator_as_long(), a.denominator_as_long())
            else:
                out[nm] = Fraction(1, 2)
        return out

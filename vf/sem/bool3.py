"""Boolean L3: unit-level structural functions as symbolic truth tables (z3 Bools).

For binary variables every unit u of a functional SCM is a tuple of response functions
f_V : {0,1}^{pa(V)} -> {0,1}.  A statement such as "Y_x and Y_t are the same random variable in every
model" or "the event is impossible / two events coincide in every model" quantifies over all such tuples,
so it is a pure SAT question over one Bool per (variable, parent configuration).
"""

from __future__ import annotations

import itertools as itt
import time

import z3

from ..graphs import GSpec


class BoolL3:
    def __init__(self, g: GSpec, tag="f"):
        self.g = g
        self.f = {}
        for v in g.nodes:
            k = len(g.parents(v))
            for cfg in itt.product((0, 1), repeat=k):
                self.f[(v, cfg)] = z3.Bool(f"{tag}_{v}_{''.join(map(str, cfg))}")
        self._memo = {}

    def value(self, v, do: dict):
        """z3 Bool: the value of V under do(do) for the symbolic unit."""
        key = (v, tuple(sorted(do.items())))
        if key in self._memo:
            return self._memo[key]
        if v in do:
            out = z3.BoolVal(bool(do[v]))
        else:
            pas = self.g.parents(v)
            pvals = [self.value(p, do) for p in pas]
            out = z3.BoolVal(False)
            # multiplexer over parent configurations
            terms = []
            for cfg in itt.product((0, 1), repeat=len(pas)):
                cond = z3.And([pv if b else z3.Not(pv) for pv, b in zip(pvals, cfg)]) if pas else z3.BoolVal(True)
                terms.append(z3.And(cond, self.f[(v, cfg)]))
            out = z3.Or(terms)
        self._memo[key] = out
        return out

    def atom(self, v, do: dict, val: int):
        x = self.value(v, dict(do))
        return x if val else z3.Not(x)

    def event(self, atoms):
        return z3.And([self.atom(v, dict(s), val) for v, s, val in atoms]) if atoms else z3.BoolVal(True)


def sat(formula, timeout_ms=20000):
    t0 = time.time()
    s = z3.Solver()
    s.set("timeout", timeout_ms)
    s.add(formula)
    r = str(s.check())
    return r, (s.model() if r == "sat" else None), time.time() - t0


def unit_from_model(b: BoolL3, model):
    """Concrete response functions {(V, cfg): 0/1} from a SAT model."""
    return {k: (1 if z3.is_true(model.eval(v, model_completion=True)) else 0) for k, v in b.f.items()}


def eval_unit(g: GSpec, unit: dict, v, do: dict):
    if v in do:
        return do[v]
    cfg = tuple(eval_unit(g, unit, p, do) for p in g.parents(v))
    return unit[(v, cfg)]

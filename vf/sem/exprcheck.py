"""Semantic equality of two y0 expressions over FreeDist worlds (all distributions, all value assignments)."""

from __future__ import annotations

import itertools as itt

from ..common import Unsupported
from . import exact
from .denote import Denoter, free_names
from .freedist import MAX_COORDS, CoordRecorder, ExactFree, ExactFreeCW, SymFree, SymFreeCW
from .harness import grid_params
from .rat import Decider, differ_any


def all_envs(names, card):
    names = sorted(names)
    for vals in itt.product(*[range(card[n]) for n in names]):
        yield dict(zip(names, vals))


def cw_coords(e1, e2, names):
    """Coordinates of the single joint over counterfactual variables, if the expressions contain a term that mixes
    worlds and the joint stays small; else None (per-world free joints, cross-world terms uninterpreted)."""
    rec = CoordRecorder(names)
    den = Denoter(rec, default_pop="obs")
    try:
        for env in all_envs(free_names(e1) | free_names(e2), rec.card):
            den.ev(e1, env, env)
            den.ev(e2, env, env)
    except (Unsupported, KeyError):
        return None
    coords = rec.frozen()
    if not rec.used_cw or any(len(c) > MAX_COORDS for c in coords.values()):
        return None
    return coords


def compare(e1, e2, names, timeout_ms=10000, precheck_only=False):
    """Decide  forall distributions, env: [[e1]] * scale == [[e2]].

    Returns dict(verdict in unsat|sat|unknown|skip, why, env, params, v1, v2, secs).
    'skip' = an expression is outside the evaluator's vocabulary / ill-scoped (reason given).
    """
    names = set(names)
    coords = cw_coords(e1, e2, names)
    world = SymFreeCW(names, coords) if coords else SymFree(names)
    den = Denoter(world, default_pop="obs")
    try:
        fn = free_names(e1) | free_names(e2)
    except Unsupported as ex:
        return {"verdict": "skip", "why": str(ex)}
    pairs, envs = [], []
    try:
        for env in all_envs(fn, world.card):
            a = den.ev(e1, env, env)
            b = den.ev(e2, env, env)
            pairs.append((a, b))
            envs.append(env)
    except Unsupported as ex:
        return {"verdict": "skip", "why": str(ex)}
    except KeyError as ex:
        return {"verdict": "skip", "why": f"name outside the family: {ex}"}
    if precheck_only:
        return {"verdict": "ok"}
    dec = Decider(world.constraints, timeout_ms, world.params)
    verdict, model, dt = differ_any(dec, pairs)
    out = {"verdict": verdict, "secs": dt, "n_envs": len(envs), "cross_world": world.used_cw, "cw_joint": bool(coords)}
    if verdict == "sat":
        cands = [world.model_to_params(model)] + [grid_params(world.params, s) for s in range(6)]
        for params in cands:
            hit = exact_differ(e1, e2, names, params, envs)
            if hit is not None:
                out.update(hit)
                out["params"] = {k: f"{v.numerator}/{v.denominator}" for k, v in params.items()}
                return out
        out["verdict"] = "noreplay"
    return out


def exact_differ(e1, e2, names, params, envs=None):
    """Exact re-evaluation on a concrete world; returns dict(env, v1, v2) for the first difference."""
    coords = cw_coords(e1, e2, names)  # always from all value assignments, so that a replay builds the same joint
    w = ExactFreeCW(names, params, coords) if coords else ExactFree(names, params)
    if envs is None:
        try:
            fn = free_names(e1) | free_names(e2)
        except Unsupported:
            return None
        envs = list(all_envs(fn, w.card))
    for env in envs:
        try:
            v1 = exact.evaluate(e1, w, env, default_pop="obs")
            v2 = exact.evaluate(e2, w, env, default_pop="obs")
        except exact.Undefined:
            continue
        if v1 != v2:
            return {"env": env, "v1": str(v1), "v2": str(v2)}
    return None

"""Shared pieces of SEM checks: verdict bookkeeping, model extraction, exact replay."""

from __future__ import annotations

import itertools as itt
import os
from fractions import Fraction as Fr

from . import exact
from .l2 import TARGET, SymL2
from .rat import Decider, Rat


def envs_for(names, card, mode: str):
    """Assignments of the free variables: 'all', or 'diag' (all-equal assignments only)."""
    names = sorted(names)
    if mode == "all":
        for vals in itt.product(*[range(card[n]) for n in names]):
            yield dict(zip(names, vals))
    else:
        kmax = max([card[n] for n in names], default=2)
        seen = set()
        for k in range(kmax):
            env = {n: min(k, card[n] - 1) for n in names}
            key = tuple(sorted(env.items()))
            if key not in seen:
                seen.add(key)
                yield env


def fr_str(x) -> str:
    return f"{x.numerator}/{x.denominator}" if isinstance(x, Fr) else str(x)


def params_to_json(params: dict) -> dict:
    return {k: fr_str(v) for k, v in params.items()}


def params_from_json(d: dict) -> dict:
    return {k: Fr(v) for k, v in d.items()}


GRID = [Fr(1, 3), Fr(2, 5), Fr(1, 7), Fr(3, 4), Fr(5, 11), Fr(2, 9), Fr(6, 7), Fr(1, 2), Fr(3, 13), Fr(4, 5)]


def grid_params(names, shift: int) -> dict:
    """Deterministic rational parameter assignment number *shift* (fallback witnesses)."""
    return {n: GRID[(i * 7 + shift * 3 + (i * i) % 5) % len(GRID)] / (1 if True else 1) for i, n in enumerate(sorted(names))}


def normalise_rows(params: dict, row_sizes: dict) -> dict:
    """Scale grid values so that multi-value rows stay inside the simplex."""
    out = dict(params)
    rows: dict = {}
    for n in params:
        key, j = n.rsplit("|", 1)
        rows.setdefault(key, []).append(n)
    for key, ns in rows.items():
        if len(ns) > 1:
            s = sum(out[n] for n in ns)
            if s >= 1:
                for n in ns:
                    out[n] = out[n] / (s * 2)
    return out


def hashseed() -> str:
    return os.environ.get("PYTHONHASHSEED", "random")

"""Rational functions over z3 Real polynomials, kept in factored form, and the solver entry point.

A value is (product of numerator factors) / (product of denominator factors).  Every factor is
a z3 Real term that is *strictly positive* on the model class (a parameter, 1 - parameter, or a
sum of products of such), so
  * common factors can be cancelled soundly, and
  * equality of two values is decided as num1*den2 = num2*den1 without ever dividing.
The value zero is represented explicitly (n is None).
"""

from __future__ import annotations

import os

import time
from collections import Counter

import z3

ONE = z3.RealVal(1)
ZERO = z3.RealVal(0)


def is_zero(e) -> bool:
    return z3.is_rational_value(e) and e.numerator_as_long() == 0


def is_one(e) -> bool:
    return z3.is_rational_value(e) and e.numerator_as_long() == 1 and e.denominator_as_long() == 1


def mul(a, b):
    if is_zero(a) or is_zero(b):
        return ZERO
    if is_one(a):
        return b
    if is_one(b):
        return a
    return a * b


def add(a, b):
    if is_zero(a):
        return b
    if is_zero(b):
        return a
    return a + b


def prod(factors):
    out = ONE
    for f in factors:
        out = mul(out, f)
    return out


def _ms(factors):
    """Multiset of factors keyed by z3 AST id."""
    c = Counter()
    by = {}
    for f in factors:
        i = f.get_id()
        c[i] += 1
        by[i] = f
    return c, by


def _expand(c, by):
    out = []
    for i, k in c.items():
        out.extend([by[i]] * k)
    return tuple(out)


class Rat:
    __slots__ = ("n", "d")

    def __init__(self, n, d=()):
        """n: iterable of positive factors, or None for zero; d: iterable of positive factors."""
        if n is None:
            self.n, self.d = None, ()
            return
        n = tuple(f for f in n if not is_one(f))
        d = tuple(f for f in d if not is_one(f))
        if n and d:
            cn, bn = _ms(n)
            cd, bd = _ms(d)
            common = cn & cd
            if common:
                n = _expand(cn - common, bn)
                d = _expand(cd - common, bd)
        self.n, self.d = n, d

    @staticmethod
    def const(k: int) -> "Rat":
        if k == 0:
            return Rat(None)
        if k == 1:
            return Rat(())
        return Rat((z3.RealVal(k),))

    @staticmethod
    def of(e) -> "Rat":
        """Wrap one positive polynomial (or a python/z3 zero)."""
        if isinstance(e, int):
            return Rat.const(e)
        if is_zero(e):
            return Rat(None)
        return Rat((e,))

    def is_zero(self) -> bool:
        return self.n is None

    def num(self):
        return ZERO if self.n is None else prod(self.n)

    def den(self):
        return prod(self.d)

    def __mul__(self, o: "Rat") -> "Rat":
        if self.n is None or o.n is None:
            return Rat(None)
        return Rat(self.n + o.n, self.d + o.d)

    def __truediv__(self, o: "Rat") -> "Rat":
        if o.n is None:
            raise ZeroDivisionError("division by a structurally zero value")
        if self.n is None:
            return Rat(None)
        return Rat(self.n + o.d, self.d + o.n)

    def __add__(self, o: "Rat") -> "Rat":
        if self.n is None:
            return o
        if o.n is None:
            return self
        # common denominator = multiset lcm; common numerator factors are pulled out
        cd1, b1 = _ms(self.d)
        cd2, b2 = _ms(o.d)
        b1.update(b2)
        lcm = cd1 | cd2
        cn1, bn1 = _ms(self.n)
        cn2, bn2 = _ms(o.n)
        bn1.update(bn2)
        g = cn1 & cn2
        t1 = prod(_expand(cn1 - g, bn1) + _expand(lcm - cd1, b1))
        t2 = prod(_expand(cn2 - g, bn1) + _expand(lcm - cd2, b1))
        return Rat(_expand(g, bn1) + (t1 + t2,), _expand(lcm, b1))


def rat_sum(rats) -> Rat:
    """Sum of many Rats with one common denominator (avoids nested re-expansion)."""
    rats = [r for r in rats if r.n is not None]
    if not rats:
        return Rat(None)
    if len(rats) == 1:
        return rats[0]
    by = {}
    lcm = Counter()
    g = None
    parts = []
    for r in rats:
        cd, b = _ms(r.d)
        cn, bn = _ms(r.n)
        by.update(b)
        by.update(bn)
        lcm |= cd
        g = cn if g is None else (g & cn)
        parts.append((cn, cd))
    terms = [prod(_expand(cn - g, by) + _expand(lcm - cd, by)) for cn, cd in parts]
    return Rat(_expand(g, by) + (z3.Sum(terms),), _expand(lcm, by))


TACTIC = None
z3.set_param("memory_max_size", int(__import__("os").environ.get("VERIF_Z3_MEM_MB", "3000")))


def _tactic():
    global TACTIC
    if TACTIC is None:
        TACTIC = z3.Then(z3.With("simplify", som=True), "nlsat")
    return TACTIC


class Decider:
    """Solver front end for one model class.

    verdicts: 'unsat' (the two values agree for every parameter value of the class),
              'sat' (model returned), 'unknown' (inconclusive, never counted as discharged).
    """

    def __init__(self, constraints, timeout_ms: int = 20000, params: dict | None = None):
        self.constraints = list(constraints)
        self.timeout_ms = timeout_ms
        self.queries = 0
        self.seconds = 0.0
        self.params = params  # name -> z3 Real: enables the counterexample-hunting pre-pass of differ()

    def hunt(self, formula, free: int = 2, rounds: int = 3):
        """Bug hunting only: the same query with all but `free` parameters fixed to rationals (an
        under-approximation).  'sat' is a genuine counterexample; anything else proves nothing."""
        if not self.params:
            return None
        from fractions import Fraction as Fr

        names = sorted(self.params)
        grid = [Fr(1, 3), Fr(2, 5), Fr(1, 7), Fr(3, 8), Fr(5, 11), Fr(2, 9), Fr(4, 13), Fr(1, 2), Fr(3, 10), Fr(1, 5)]
        for rnd in range(rounds):
            keep = set(names[(rnd * free) % max(len(names), 1):][:free])
            fixed = {}
            for i, n in enumerate(names):
                if n not in keep:
                    # moment parameters of order >= 2 must stay below the single moments: scale by the order
                    order = n.rsplit("|", 1)[-1].count(",") + 1 if n.startswith("mu|") else 1
                    fixed[n] = grid[(i * 7 + rnd * 3 + (i * i) % 5) % len(grid)] ** order
            subs = [(self.params[n], z3.RealVal(str(v))) for n, v in fixed.items()]
            f2 = z3.substitute(formula, *subs)
            cons = [z3.substitute(c, *subs) for c in self.constraints]
            s = z3.Solver()
            s.set("timeout", min(self.timeout_ms, 3000))
            for c in cons:
                s.add(c)
            s.add(f2)
            try:
                r = str(s.check())
            except z3.Z3Exception:
                r = "unknown"
            if r == "sat":
                return _PartialModel(s.model(), {self.params[n].get_id(): z3.RealVal(str(v)) for n, v in fixed.items()})
        return None

    def check(self, *formulas):
        t0 = time.time()
        s = _tactic().solver()
        s.set("timeout", self.timeout_ms)
        for c in self.constraints:
            s.add(c)
        for f in formulas:
            s.add(f)
        try:
            r = s.check()
            verdict = str(r)
        except z3.Z3Exception:
            verdict = "unknown"
        dt = time.time() - t0
        self.queries += 1
        self.seconds += dt
        model = s.model() if verdict == "sat" else None
        return verdict, model, dt

    def differ(self, a: Rat, b: Rat):
        """Is there a parameter value of the class with a != b ?"""
        if a.n is None and b.n is None:
            return self.check(ZERO != ZERO)
        if a.n is None or b.n is None:
            # a positive value can never equal zero; still let the solver say so
            other = b if a.n is None else a
            return self.check(other.num() != ZERO)
        # a.n/a.d vs b.n/b.d: cross-multiply, cancel common positive factors on both sides
        left = Rat(a.n + b.d, b.n + a.d)
        formula = prod(left.n) != prod(left.d)
        verdict, model, dt = self.check(formula)
        if verdict == "unknown":
            t0 = time.time()
            pm = self.hunt(formula)
            if pm is not None:
                return "sat", pm, dt + time.time() - t0
        return verdict, model, dt

    def positive(self, a: Rat):
        """Reachability twin: constraints are satisfiable together with a > 0."""
        return self.check(a.num() > 0, a.den() > 0)


class _PartialModel:
    """z3 model of an under-approximated query, completed with the rationals that were substituted."""

    def __init__(self, model, fixed):
        self.model, self.fixed = model, fixed

    def eval(self, v, model_completion=True):
        hit = self.fixed.get(v.get_id())
        return hit if hit is not None else self.model.eval(v, model_completion=model_completion)


def differ_formula(a: Rat, b: Rat):
    """z3 formula 'a != b' (cross-multiplied, common positive factors cancelled)."""
    if a.n is None and b.n is None:
        return z3.BoolVal(False)
    if a.n is None or b.n is None:
        return z3.BoolVal(True)  # a strictly positive value never equals zero
    left = Rat(a.n + b.d, b.n + a.d)
    return prod(left.n) != prod(left.d)


def differ_any(decider: Decider, pairs):
    """One query for a whole family of value assignments: exists parameters and i with a_i != b_i."""
    fs = [differ_formula(a, b) for a, b in pairs]
    formula = z3.Or(fs) if len(fs) != 1 else fs[0]
    verdict, model, dt = decider.check(formula)
    if verdict == "unknown":
        t0 = time.time()
        pm = decider.hunt(formula)
        if pm is not None:
            return "sat", pm, dt + time.time() - t0
    return verdict, model, dt

"""Denotation of y0 expressions (DESIGN §2) over a *world* that supplies probabilities.

world.prob_rat(pop, do: dict, assign: dict) -> Rat                (single-world terms)
world.prob_cw(pop, atoms: list[(name, do: dict, value)]) -> Rat   (cross-world, optional)
world.card[name] -> domain size
world.qfactor(codomain: tuple, domain_vals: tuple) -> Rat         (optional, C12/C13)
"""

from __future__ import annotations

import itertools as itt

from y0.dsl import (
    CounterfactualVariable,
    Fraction,
    One,
    PopulationProbability,
    Probability,
    Product,
    QFactor,
    Sum,
    Zero,
)

from ..common import Unsupported
from .l2 import TARGET
from .rat import Rat, rat_sum


class Denoter:
    """Evaluate an expression to a Rat.

    env:  values of unmarked variable occurrences (free variables and Sum-bound ones)
    ienv: values of '-V' intervention subscripts; a missing name means the literal value 0.
          (for level-2 families ienv is env; for the ID*-family it starts empty: literal reading)
    """

    def __init__(self, world, default_pop: str = TARGET, allow_pops=None, vocab=None):
        self.world = world
        self.default_pop = default_pop
        self.vocab = vocab  # optional callable(pop, do, names) -> None or raises Unsupported

    # -- variable occurrences ----------------------------------------------------------
    def _value(self, var, env, bound):
        if var.star is None:
            if var.name not in env:
                raise Unsupported(f"free variable {var.name} has no value")
            return env[var.name]
        if var.name in bound:
            # a value-marked child/parent is a constant; under a Sum over the same name it has no agreed meaning
            raise Unsupported(f"ill-scoped: marked {var} under Sum over {var.name}")
        return 1 if var.star else 0

    def _do(self, var, ienv, bound):
        if not isinstance(var, CounterfactualVariable):
            return {}
        do = {}
        for i in var.interventions:
            if i.star:
                val = 1  # '+V' is always the literal other value, also under a Sum over V
            else:
                val = ienv.get(i.name, 0)
            if i.name in do and do[i.name] != val:
                raise Unsupported("contradictory subscripts")
            do[i.name] = val
        return do

    # -- expressions -------------------------------------------------------------------
    def ev(self, e, env: dict, ienv: dict, bound: frozenset = frozenset()) -> Rat:
        if isinstance(e, One):
            return Rat.const(1)
        if isinstance(e, Zero):
            return Rat.const(0)
        if isinstance(e, Probability):
            return self._prob(e, env, ienv, bound)
        if isinstance(e, Product):
            out = Rat.const(1)
            for f in e.expressions:
                out = out * self.ev(f, env, ienv, bound)
            return out
        if isinstance(e, Fraction):
            num = self.ev(e.numerator, env, ienv, bound)
            den = self.ev(e.denominator, env, ienv, bound)
            if den.is_zero():
                raise Unsupported("denominator is structurally zero")
            return num / den
        if isinstance(e, Sum):
            names = sorted(r.name for r in e.ranges)
            terms = []
            b2 = bound | set(names)
            for vals in itt.product(*[range(self.world.card[n]) for n in names]):
                env2 = dict(env)
                env2.update(zip(names, vals))
                ienv2 = dict(ienv)
                ienv2.update(zip(names, vals))
                terms.append(self.ev(e.expression, env2, ienv2, b2))
            return rat_sum(terms)
        if isinstance(e, QFactor):
            dom = tuple(sorted(v.name for v in e.domain))
            cod = tuple(sorted(v.name for v in e.codomain))
            for v in itt.chain(e.domain, e.codomain):
                if v.star is not None or isinstance(v, CounterfactualVariable):
                    raise Unsupported("marked variable in Q factor")
            return self.world.qfactor(cod, dom, tuple(env[n] for n in dom))
        raise Unsupported(f"unknown expression type {type(e).__name__}")

    def _prob(self, e, env, ienv, bound) -> Rat:
        pop = e.population.name if isinstance(e, PopulationProbability) else self.default_pop
        ch = [(v.name, self._do(v, ienv, bound), self._value(v, env, bound)) for v in e.children]
        pa = [(v.name, self._do(v, ienv, bound), self._value(v, env, bound)) for v in e.parents]
        dos = {tuple(sorted(a[1].items())) for a in ch + pa}
        if self.vocab is not None:
            self.vocab(pop, dos, [a[0] for a in ch + pa])
        if len(dos) == 1:
            do = dict(next(iter(dos)))
            num_assign, ok = _merge([(n, v) for n, _, v in ch + pa])
            den_assign, ok2 = _merge([(n, v) for n, _, v in pa])
            den = self.world.prob_rat(pop, do, den_assign) if ok2 else Rat.const(0)
            if pa and den.is_zero():
                raise Unsupported("conditioning on a structurally impossible event")
            num = self.world.prob_rat(pop, do, num_assign) if ok else Rat.const(0)
            return num / den if pa else num
        if not hasattr(self.world, "prob_cw"):
            raise Unsupported("cross-world term in a level-2 world")
        num = self.world.prob_cw(pop, ch + pa)
        if not pa:
            return num
        den = self.world.prob_cw(pop, pa)
        if den.is_zero():
            raise Unsupported("conditioning on a structurally impossible event")
        return num / den


def _merge(pairs):
    out = {}
    for n, v in pairs:
        if n in out and out[n] != v:
            return out, False
        out[n] = v
    return out, True


def free_names(e, bound: frozenset = frozenset()) -> set:
    """Names of unmarked, unbound variable occurrences (children/parents and '-V' subscripts)."""
    if isinstance(e, (One, Zero)):
        return set()
    if isinstance(e, Probability):
        out = set()
        for v in itt.chain(e.children, e.parents):
            if v.star is None and v.name not in bound:
                out.add(v.name)
            if isinstance(v, CounterfactualVariable):
                for i in v.interventions:
                    if not i.star and i.name not in bound:
                        out.add(i.name)
        return out
    if isinstance(e, Product):
        return set().union(*[free_names(f, bound) for f in e.expressions])
    if isinstance(e, Fraction):
        return free_names(e.numerator, bound) | free_names(e.denominator, bound)
    if isinstance(e, Sum):
        return free_names(e.expression, bound | {r.name for r in e.ranges})
    if isinstance(e, QFactor):
        return {v.name for v in e.domain if v.name not in bound}
    raise Unsupported(f"unknown expression type {type(e).__name__}")

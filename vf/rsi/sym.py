"""Symbolic values of the relational interpreter: guards, sets, lists; z3 Bool helpers with folding."""

from __future__ import annotations

import itertools as itt

import z3

from ..common import Unsupported

TRUE = True
FALSE = False


def is_sym(g) -> bool:
    return isinstance(g, z3.BoolRef)


def lift(g):
    return g if is_sym(g) else z3.BoolVal(bool(g))


def band(*gs):
    out = []
    for g in gs:
        if is_sym(g):
            if z3.is_true(g):
                continue
            if z3.is_false(g):
                return False
            out.append(g)
        elif not g:
            return False
    if not out:
        return True
    return out[0] if len(out) == 1 else z3.And(out)


def bor(*gs):
    out = []
    for g in gs:
        if is_sym(g):
            if z3.is_false(g):
                continue
            if z3.is_true(g):
                return True
            out.append(g)
        elif g:
            return True
    if not out:
        return False
    return out[0] if len(out) == 1 else z3.Or(out)


def bnot(g):
    if is_sym(g):
        if z3.is_true(g):
            return False
        if z3.is_false(g):
            return True
        return z3.Not(g)
    return not g


def bite(c, a, b):
    """if-then-else on guards."""
    if not is_sym(c):
        return a if c else b
    if not is_sym(a) and not is_sym(b):
        if a and b:
            return True
        if not a and not b:
            return False
        return c if a else bnot(c)
    return bor(band(c, a), band(bnot(c), b))


def biff(a, b):
    if not is_sym(a) and not is_sym(b):
        return bool(a) == bool(b)
    return lift(a) == lift(b)


class SBool:
    """A symbolic truth value (wrapping a guard)."""

    __slots__ = ("g",)

    def __init__(self, g):
        self.g = g

    def __bool__(self):
        raise Unsupported("symbolic truth value used concretely")


def guard_of(x):
    """Truthiness of an interpreter value as a guard."""
    if isinstance(x, SBool):
        return x.g
    if isinstance(x, SSet):
        return bor(*x.d.values())
    if isinstance(x, SList):
        return bor(*[g for g, _ in x.items])
    if hasattr(x, "__truth_guard__"):
        return x.__truth_guard__()
    return bool(x)


def wrap(g):
    """Guard -> interpreter value (python bool when concrete)."""
    return SBool(g) if is_sym(g) else bool(g)


class SSet:
    """A subset of concrete candidates: element -> guard (False entries are dropped)."""

    def __init__(self, d=None):
        self.d = {}
        if d:
            for k, g in d.items():
                if is_sym(g) or g:
                    self.d[k] = g

    @staticmethod
    def of(it):
        if isinstance(it, SSet):
            return SSet(dict(it.d))
        if isinstance(it, GList):
            it = SList.of(it)
        if isinstance(it, SList):
            out = {}
            for g, x in it.items:
                out[x] = bor(out.get(x, False), g)
            return SSet(out)
        return SSet({x: True for x in it})

    def is_concrete(self) -> bool:
        return all(not is_sym(g) for g in self.d.values())

    def concrete(self):
        return {k for k, g in self.d.items() if g}

    def mem(self, x):
        return self.d.get(x, False)

    def items(self):
        return list(self.d.items())

    def union(self, o):
        o = SSet.of(o)
        out = dict(self.d)
        for k, g in o.d.items():
            out[k] = bor(out.get(k, False), g)
        return SSet(out)

    def inter(self, o):
        o = SSet.of(o)
        return SSet({k: band(g, o.mem(k)) for k, g in self.d.items()})

    def diff(self, o):
        o = SSet.of(o)
        return SSet({k: band(g, bnot(o.mem(k))) for k, g in self.d.items()})

    def subset_guard(self, o, proper=False):
        o = SSet.of(o)
        sub = band(*[bor(bnot(g), o.mem(k)) for k, g in self.d.items()])
        if not proper:
            return sub
        extra = bor(*[band(g, bnot(self.mem(k))) for k, g in o.d.items()])
        return band(sub, extra)

    def eq_guard(self, o):
        o = SSet.of(o)
        keys = set(self.d) | set(o.d)
        return band(*[biff(self.mem(k), o.mem(k)) for k in keys])

    def guarded(self, g):
        return SSet({k: band(g, x) for k, x in self.d.items()})

    def size_guard_eq(self, n: int):
        gs = [lift(g) for g in self.d.values()]
        if not gs:
            return n == 0
        return z3.And(z3.AtMost(*gs, n), z3.AtLeast(*gs, n)) if 0 <= n <= len(gs) else False

    def __repr__(self):
        return "SSet{" + ", ".join(f"{k}:{g}" for k, g in self.d.items()) + "}"


class GList(list):
    """A real Python list (so native code accepts it) whose elements may carry guards: created by list
    literals in interpreted code; `append` under a symbolic path condition records the guard."""

    def __init__(self, it=()):
        super().__init__(it)
        self.guards = [True] * len(self)

    def symbolic(self) -> bool:
        return any(is_sym(g) for g in self.guards)


class SList:
    """A list whose elements are present under guards, in a fixed order."""

    def __init__(self, items=None):
        self.items = [(g, x) for g, x in (items or []) if is_sym(g) or g]

    @staticmethod
    def of(it):
        if isinstance(it, SList):
            return SList(list(it.items))
        if isinstance(it, SSet):
            return SList([(g, k) for k, g in sorted(it.d.items(), key=lambda kv: repr(kv[0]))])
        if isinstance(it, GList):
            return SList(list(zip(it.guards, list(it))))
        if hasattr(it, "drain"):
            return it.drain()
        return SList([(True, x) for x in it])

    def is_concrete(self):
        return all(not is_sym(g) for g, _ in self.items)

    def concrete(self):
        return [x for g, x in self.items if g]

    def guarded(self, g):
        return SList([(band(g, h), x) for h, x in self.items])

    def __repr__(self):
        return "SList[" + ", ".join(f"{x}:{g}" for g, x in self.items) + "]"


class Choice(SList):
    """One-of value: guarded alternatives (result of min over a guarded collection, of a constructor applied to a
    guarded set, or of merging two different atoms)."""

    @staticmethod
    def of(x):
        return x if isinstance(x, Choice) else Choice([(True, x)])


def subsets_of(s):
    """All (guard, frozenset) with guard = 'the guarded set s equals this subset'."""
    items = list(SSet.of(s).d.items())
    out = []
    for mask in range(1 << len(items)):
        gs, sub = [], []
        for i, (k, g) in enumerate(items):
            if mask >> i & 1:
                gs.append(g)
                sub.append(k)
            else:
                gs.append(bnot(g))
        g = band(*gs)
        if is_sym(g) or g:
            out.append((g, frozenset(sub)))
    return out


class SymCount:
    """Number of present elements of a guarded collection; supports comparison with a concrete int."""

    def __init__(self, guards):
        self.gs = [g for g in guards if is_sym(g) or g]

    def eq(self, n):
        if not isinstance(n, int):
            raise Unsupported("comparison of a symbolic count with a non-integer")
        fixed = sum(1 for g in self.gs if not is_sym(g))
        sym = [g for g in self.gs if is_sym(g)]
        k = n - fixed
        if k < 0 or k > len(sym):
            return False
        if not sym:
            return k == 0
        return z3.And(z3.AtMost(*sym, k), z3.AtLeast(*sym, k))

    def ge(self, n):
        fixed = sum(1 for g in self.gs if not is_sym(g))
        sym = [g for g in self.gs if is_sym(g)]
        k = n - fixed
        if k <= 0:
            return True
        if k > len(sym):
            return False
        return z3.AtLeast(*sym, k)

    def __truth_guard__(self):
        return self.ge(1)

    def __bool__(self):
        raise Unsupported("symbolic count used concretely")


class GDict:
    """A dict built by a comprehension over a guarded collection: entries present under guards (distinct keys)."""

    def __init__(self, entries):
        self.entries = [(g, k, v) for g, k, v in entries if is_sym(g) or g]

    def items(self):
        return SList([(g, (k, v)) for g, k, v in self.entries])

    def keys(self):
        return SList([(g, k) for g, k, _ in self.entries])

    def values(self):
        return SList([(g, v) for g, _, v in self.entries])


def merge(c, a, b):
    """Value of `a if c else b` for interpreter values (c a guard)."""
    if not is_sym(c):
        return a if c else b
    if a is b:
        return a
    if isinstance(a, (SBool, bool)) and isinstance(b, (SBool, bool)):
        return wrap(bite(c, guard_of(a), guard_of(b)))
    if isinstance(a, (SSet, set, frozenset)) and isinstance(b, (SSet, set, frozenset)):
        A, B = SSet.of(a), SSet.of(b)
        keys = list(A.d) + [k for k in B.d if k not in A.d]
        return SSet({k: bite(c, A.mem(k), B.mem(k)) for k in keys})
    if isinstance(a, GList) and a is not b and isinstance(b, GList) and list(a)[: len(b)] == list(b):
        # the same list object grown under the condition: guard the new tail
        out = GList(list(a))
        out.guards = list(b.guards) + [band(c, g) for g in a.guards[len(b):]]
        return out
    if isinstance(a, (SList, list, tuple)) and isinstance(b, (SList, list, tuple)):
        A, B = SList.of(a), SList.of(b)
        # common prefix stays, the rest is guarded
        return SList([(band(c, g), x) for g, x in A.items] + [(band(bnot(c), g), x) for g, x in B.items])
    if hasattr(a, "__merge__") and type(a) is type(b):
        return a.__merge__(c, b)
    try:
        if a == b:
            return a
    except Exception:  # noqa: BLE001
        pass
    atom = lambda x: isinstance(x, Choice) or (not isinstance(x, (SSet, SList, GList, list, set, dict, SBool)) and x is not None and getattr(type(x), "__hash__", None) is not None and not hasattr(x, "__merge__"))
    if atom(a) and atom(b):
        return Choice([(band(c, g), x) for g, x in Choice.of(a).items] + [(band(bnot(c), g), x) for g, x in Choice.of(b).items])
    raise Unsupported(f"cannot merge {type(a).__name__} with {type(b).__name__} under a symbolic condition")

"""Symbolic inputs, spec helpers, solving, concretisation and native replay for RSI checks."""

from __future__ import annotations

import itertools as itt
import time

import z3

from . import models as M
from .interp import Interp, SymMixed
from .sym import SSet, band, biff, bnot, bor, is_sym, lift


def universe(n):
    from y0.dsl import Variable

    return [Variable(f"V{i}") for i in range(n)]


class SymInput:
    """A symbolic mixed graph over U: presence, directed edges, bidirected edges; optional acyclicity by ranks."""

    def __init__(self, U, tag="g", acyclic=False, all_present=False):
        self.U = U
        self.p = {v: (True if all_present else z3.Bool(f"{tag}_p_{v.name}")) for v in U}
        self.d = {(u, v): z3.Bool(f"{tag}_d_{u.name}_{v.name}") for u in U for v in U if u != v}
        self.b = {frozenset((u, v)): z3.Bool(f"{tag}_b_{u.name}_{v.name}") for u, v in itt.combinations(U, 2)}
        self.wf = []
        for (u, v), e in self.d.items():
            self.wf.append(z3.Implies(e, z3.And(lift(self.p[u]), lift(self.p[v]))))
        for k, e in self.b.items():
            u, v = tuple(k)
            self.wf.append(z3.Implies(e, z3.And(lift(self.p[u]), lift(self.p[v]))))
        self.rank = None
        if acyclic:
            self.rank = {v: z3.Int(f"{tag}_r_{v.name}") for v in U}
            for (u, v), e in self.d.items():
                self.wf.append(z3.Implies(e, self.rank[u] < self.rank[v]))
            for v in U:
                self.wf.append(z3.And(self.rank[v] >= 0, self.rank[v] < len(U)))

    def mixed(self) -> SymMixed:
        di = M.SymDiGraph(self.U, dict(self.p), dict(self.d))
        un = M.SymGraph(self.U, dict(self.p), dict(self.b))
        self.un_ranks = un.ranks()
        return SymMixed(di, un, self.U)

    def insertion_order(self, model):
        """Node insertion order of the input graph under a model (earlier-inserted endpoint first in edges())."""
        nodes, _, _ = self.concrete(model)
        r = getattr(self, "un_ranks", None)
        if r is None:
            return nodes
        val = lambda v: model.eval(r[v], model_completion=True).as_long()
        return sorted(nodes, key=val)

    def concrete(self, model):
        """(nodes, directed edges, bidirected edges) under a z3 model."""
        ev = lambda g: (bool(g) if not is_sym(g) else z3.is_true(model.eval(g, model_completion=True)))
        nodes = [v for v in self.U if ev(self.p[v])]
        di = [(u, v) for (u, v), e in self.d.items() if ev(e)]
        bi = [tuple(sorted(k, key=lambda x: x.name)) for k, e in self.b.items() if ev(e)]
        return nodes, di, bi

    def to_nx(self, model, order=None):
        from y0.graph import NxMixedGraph

        nodes, di, bi = self.concrete(model)
        g = NxMixedGraph()
        for n in (order or nodes):
            if n in nodes:
                g.add_node(n)
        for u, v in di:
            g.add_directed_edge(u, v)
        for u, v in bi:
            g.add_undirected_edge(u, v)
        return g


def sym_subset(U, tag="s"):
    return SSet({v: z3.Bool(f"{tag}_{v.name}") for v in U})


def eval_set(model, s: SSet):
    out = set()
    for k, g in s.d.items():
        if (not is_sym(g) and g) or (is_sym(g) and z3.is_true(model.eval(g, model_completion=True))):
            out.add(k)
    return out


def graph_differs(m: SymMixed, nodes: dict, di: dict, bi: dict):
    """Guard: the symbolic graph m differs from the spec (node -> guard, (u,v) -> guard, frozenset -> guard).

    Also covers the NxMixedGraph invariant that both component graphs have the node set."""
    gs = []
    for v in m.directed.U:
        gs.append(bnot(biff(m.directed.node[v], nodes.get(v, False))))
        gs.append(bnot(biff(m.undirected.node[v], nodes.get(v, False))))
    for k in set(m.directed.edge) | set(di):
        gs.append(bnot(biff(m.directed.edge.get(k, False), di.get(k, False))))
    for k in set(m.undirected.edge) | set(bi):
        gs.append(bnot(biff(m.undirected.edge.get(k, False), bi.get(k, False))))
    return bor(*gs)


def set_differs(s, spec: dict):
    S = SSet.of(s)
    keys = set(S.d) | set(spec)
    return bor(*[bnot(biff(S.mem(k), spec.get(k, False))) for k in keys])


def solve(constraints, goal, timeout_ms=60000):
    """sat? of constraints and goal.  Returns (verdict, model, seconds)."""
    t0 = time.time()
    s = z3.Solver()
    s.set("timeout", timeout_ms)
    for c in constraints:
        s.add(c)
    for c in M.Ctx.side:
        s.add(c)
    s.add(lift(goal))
    r = str(s.check())
    return r, (s.model() if r == "sat" else None), time.time() - t0


def raise_guard(raises, allowed=()):
    return bor(*[g for g, name, _ in raises if name not in allowed])


def count_vars(*inputs):
    n = 0
    for i in inputs:
        if isinstance(i, SymInput):
            n += sum(1 for g in i.p.values() if is_sym(g)) + len(i.d) + len(i.b)
        elif isinstance(i, SSet):
            n += len(i.d)
    return n

"""A small relational symbolic interpreter for the graph code of y0.

It walks the AST of the *current* source files (parsed on every run) and executes statements over
the values of sym.py / models.py with state merging: a symbolic `if` runs both arms under guards and
merges, a `for` over a symbolic collection runs the body once per candidate under its membership
guard, `return` / `raise` / `break` / `yield` under guards are accumulated.
"""

from __future__ import annotations

import ast
import itertools as itt
from pathlib import Path

from ..common import REPO, Unsupported
from . import models as M
from .models import Ctx
from .sym import Choice, GDict, GList, SBool, SList, SSet, SymCount, subsets_of, band, bite, bnot, bor, guard_of, is_sym, lift, merge, wrap

SRC = REPO / "src" / "y0"
MODULES = {
    "graph": "graph.py",
    "ci": "algorithm/conditional_independencies.py",
    "struct": "struct.py",
    "comb": "util/combinatorics.py",
    "sigma": "algorithm/separation/sigma_separation.py",
    "simplify": "algorithm/simplify_latent.py",
    "ancutil": "algorithm/counterfactual_transport/ancestor_utils.py",
    "transport": "algorithm/transport.py",
}


class SymMixed:
    """Instance of y0.graph.NxMixedGraph whose two graphs are symbolic models."""

    def __init__(self, directed=None, undirected=None, universe=None):
        self.directed = directed if directed is not None else M.SymDiGraph(universe)
        self.undirected = undirected if undirected is not None else M.SymGraph(universe)

    def __merge__(self, c, other):
        return SymMixed(self.directed.__merge__(c, other.directed), self.undirected.__merge__(c, other.undirected))


class PyFunc:
    def __init__(self, interp, mod, node, cls=None):
        self.interp, self.mod, self.node, self.cls = interp, mod, node, cls
        decos = [d.id if isinstance(d, ast.Name) else getattr(d, "attr", None) for d in node.decorator_list]
        self.kind = "classmethod" if "classmethod" in decos else "staticmethod" if "staticmethod" in decos else "property" if "property" in decos else "plain"
        self.is_gen = any(isinstance(n, (ast.Yield, ast.YieldFrom)) for n in ast.walk(node))

    def __repr__(self):
        return f"<y0 {self.mod}.{self.node.name}>"


class Bound:
    def __init__(self, func, self_obj):
        self.func, self.self_obj = func, self_obj


class Partial:
    def __init__(self, fn, args, kwargs):
        self.fn, self.args, self.kwargs = fn, args, kwargs


class ClassRef:
    """Reference to an interpreted class (NxMixedGraph)."""

    def __init__(self, name):
        self.name = name


class Poison:
    """Result of an impossible merge; only an error if the value is read afterwards."""

    def __init__(self, why):
        self.why = why


def soft_merge(c, a, b):
    try:
        return merge(c, a, b)
    except Unsupported as e:
        return Poison(str(e))


class LazyGen:
    """A generator function of y0 run lazily (only when Interp.lazy_generators is set): the body runs in its own
    thread with a strict hand-off, so that what it reads from a graph the consumer mutates between two items is
    the mutated graph, as in Python.  Not modelled: a generator with side effects of its own that the consumer
    abandons with `break` (the body is still run to its end)."""

    def __init__(self, interp, f, fr):
        import threading

        self.interp, self.f, self.fr = interp, f, fr
        fr.lazy = self
        self.to_prod, self.to_cons = threading.Semaphore(0), threading.Semaphore(0)
        self.started = self.done = False
        self.item = self.exc = None
        self.pc = Ctx.pc

    def _run(self):
        self.to_prod.acquire()
        try:
            Ctx.pc = self.pc
            self.interp.block(self.f.node.body, self.fr)
        except BaseException as e:  # noqa: BLE001 - handed to the consumer
            self.exc = e
        self.done = True
        self.to_cons.release()

    def emit(self, g, x):
        self.item, self.pc = (g, x), Ctx.pc
        self.to_cons.release()
        self.to_prod.acquire()
        Ctx.pc = self.pc

    def pull(self):
        import threading

        if self.done:
            return None
        saved = Ctx.pc
        if not self.started:
            self.started = True
            threading.Thread(target=self._run, daemon=True).start()
        self.item = None
        self.to_prod.release()
        self.to_cons.acquire()
        Ctx.pc = saved
        if self.exc is not None:
            e, self.exc = self.exc, None
            raise e
        return None if self.done else self.item

    def drain(self):
        items = []
        while True:
            it = self.pull()
            if it is None:
                return SList(items)
            items.append(it)


def undrain(v):
    return v.drain() if isinstance(v, LazyGen) else v


class Frame:
    lazy = None

    def __init__(self, env):
        self.env = env
        self.returns = []  # (guard, value)
        self.yields = []  # (guard, value)
        self.live = True  # guard: this invocation has not returned/raised yet


class LoopState:
    def __init__(self):
        self.broken = False  # guard under which a break has happened
        self.cont = False  # guard under which continue happened in this iteration


class Interp:
    def __init__(self, universe, lazy_generators=False):
        self.U = list(universe)
        self.lazy_generators = lazy_generators
        self.unwind = len(self.U) + 1
        self.funcs = {}  # (mod, name) -> PyFunc
        self.classes = {}  # class name -> {method name: PyFunc}
        self.globals = {}
        self.raises = []  # (guard, exc name)
        self.depth = 0
        self._load()

    # ------------------------------------------------------------------ loading
    def _load(self):
        import functools
        import more_itertools
        import networkx as nx
        from y0 import dsl
        from y0 import struct as y0struct

        self.sources = {}
        self.module_consts = {}
        for mod, rel in MODULES.items():
            path = SRC / rel
            tree = ast.parse(path.read_text())
            self.sources[mod] = str(path)
            for node in tree.body:
                if isinstance(node, ast.FunctionDef):
                    self.funcs[(mod, node.name)] = PyFunc(self, mod, node)
                elif isinstance(node, ast.Assign) and len(node.targets) == 1 and isinstance(node.targets[0], ast.Name) and isinstance(node.value, ast.Constant):
                    self.module_consts[node.targets[0].id] = node.value.value  # e.g. DEFAULT_TAG, DEFULT_PREFIX
                elif isinstance(node, ast.ClassDef):
                    self.classes.setdefault(node.name, {})
                    for sub in node.body:
                        if isinstance(sub, ast.FunctionDef):
                            self.classes[node.name][sub.name] = PyFunc(self, mod, sub, cls=node.name)
        g = self.globals
        for name in ("Variable", "Intervention", "CounterfactualVariable", "_upgrade_variables"):
            g[name] = getattr(dsl, name)
        g["NxMixedGraph"] = ClassRef("NxMixedGraph")
        g["DSeparationJudgement"] = ClassRef("DSeparationJudgement")
        g["nx"] = "NX"
        g["itt"] = itt
        g["chain"] = itt.chain
        g["combinations"] = itt.combinations
        g["groupby"] = itt.groupby
        g["partial"] = functools.partial
        g["tqdm"] = lambda it, **k: it
        g["cast"] = lambda t, v: v
        self.passthrough = {g["tqdm"], g["cast"]}
        try:
            from y0.algorithm.simplify_latent import SimplifyResults

            g["SimplifyResults"] = SimplifyResults
            self.passthrough.add(SimplifyResults)
        except Exception:  # noqa: BLE001 - only the Evans harness needs it
            pass
        g["triplewise"] = more_itertools.triplewise
        for name, val in (("set", set), ("frozenset", frozenset), ("list", list), ("tuple", tuple), ("len", len), ("any", any), ("all", all), ("sorted", sorted), ("min", min), ("isinstance", isinstance), ("str", str), ("iter", iter), ("range", range), ("enumerate", enumerate), ("zip", zip), ("sum", sum), ("bool", bool), ("int", int), ("dict", dict), ("reversed", reversed), ("next", next), ("max", max), ("print", lambda *a, **k: None)):
            g[name] = val
        for name in ("TypeError", "KeyError", "ValueError", "RuntimeError", "NotImplementedError", "Iterable", "Sequence", "Collection", "Any", "None"):
            g[name] = name
        for k, v in self.module_consts.items():
            g.setdefault(k, v)
        g["attrgetter"] = __import__("operator").attrgetter

    def lookup_func(self, name, mod=None):
        if mod and (mod, name) in self.funcs:
            return self.funcs[(mod, name)]
        for (m, n), f in self.funcs.items():
            if n == name:
                return f
        return None

    # ------------------------------------------------------------------ entry point
    def call(self, fn, *args, **kwargs):
        """Interpret a y0 function (by name) on interpreter values.  Returns (value, raises)."""
        if isinstance(fn, str):
            f = self.lookup_func(fn)
            if f is None:
                raise Unsupported(f"no function {fn}")
            fn = f
        saved = (Ctx.pc, Ctx.raises)
        Ctx.pc, Ctx.raises = True, []
        try:
            val = self.apply(fn, list(args), dict(kwargs))
            return val, list(Ctx.raises)
        finally:
            Ctx.pc, Ctx.raises = saved

    def apply_entry(self, classmethod_name, *args, **kwargs):
        """Call a classmethod of NxMixedGraph (e.g. from_latent_variable_dag)."""
        f = self.classes["NxMixedGraph"][classmethod_name]
        saved = (Ctx.pc, Ctx.raises)
        Ctx.pc, Ctx.raises = True, []
        try:
            val = self.apply(Bound(f, ClassRef("NxMixedGraph")), list(args), dict(kwargs))
            return val, list(Ctx.raises)
        finally:
            Ctx.pc, Ctx.raises = saved

    def method(self, obj, name, *args, **kwargs):
        f = self.classes["NxMixedGraph"][name]
        saved = (Ctx.pc, Ctx.raises)
        Ctx.pc, Ctx.raises = True, []
        try:
            val = self.apply(Bound(f, obj), list(args), dict(kwargs))
            return val, list(Ctx.raises)
        finally:
            Ctx.pc, Ctx.raises = saved

    # ------------------------------------------------------------------ function application
    def apply(self, fn, args, kwargs):
        if isinstance(fn, Bound):
            return self.apply(fn.func, [fn.self_obj] + args, kwargs)
        if isinstance(fn, Partial):
            kw = dict(fn.kwargs)
            kw.update(kwargs)
            return self.apply(fn.fn, list(fn.args) + args, kw)
        if isinstance(fn, PyFunc):
            return self.run_func(fn, args, kwargs)
        if isinstance(fn, ClassRef):
            return self.construct(fn, args, kwargs)
        if callable(fn):
            return self.native(fn, args, kwargs)
        raise Unsupported(f"cannot call {fn!r}")

    def construct(self, cls, args, kwargs):
        if cls.name == "NxMixedGraph":
            if args:
                raise Unsupported("positional NxMixedGraph()")
            return SymMixed(kwargs.get("directed"), kwargs.get("undirected"), self.U)
        if cls.name == "DSeparationJudgement":
            from y0.struct import DSeparationJudgement

            return Judgement(*args, **kwargs)
        raise Unsupported(cls.name)

    def run_func(self, f: PyFunc, args, kwargs):
        if self.depth > 40:
            raise Unsupported("recursion too deep")
        a = f.node.args
        params = [x.arg for x in a.posonlyargs + a.args]
        env = {}
        defaults = a.defaults
        ndef = len(defaults)
        for i, p in enumerate(params):
            if i < len(args):
                env[p] = args[i]
            elif p in kwargs:
                env[p] = kwargs.pop(p)
            else:
                j = i - (len(params) - ndef)
                if j < 0:
                    raise Unsupported(f"missing argument {p} of {f.node.name}")
                env[p] = self.eval(defaults[j], Frame({"__mod__": f.mod}))
        if len(args) > len(params):
            if a.vararg is None:
                raise Unsupported("too many positional arguments")
            env[a.vararg.arg] = tuple(args[len(params):])
        for k, d in zip(a.kwonlyargs, a.kw_defaults):
            if k.arg in kwargs:
                env[k.arg] = kwargs.pop(k.arg)
            elif d is not None:
                env[k.arg] = self.eval(d, Frame({"__mod__": f.mod}))
            else:
                raise Unsupported(f"missing keyword argument {k.arg}")
        if kwargs:
            if a.kwarg is None:
                raise Unsupported(f"unexpected keyword arguments {list(kwargs)} for {f.node.name}")
            env[a.kwarg.arg] = kwargs
        elif a.kwarg is not None:
            env[a.kwarg.arg] = {}
        env["__mod__"] = f.mod
        env["__cls__"] = f.cls
        fr = Frame(env)
        if f.is_gen and self.lazy_generators:
            return LazyGen(self, f, fr)
        saved_pc = Ctx.pc
        self.depth += 1
        try:
            self.block(f.node.body, fr)
        finally:
            self.depth -= 1
            Ctx.pc = saved_pc
        if f.is_gen:
            return SList(fr.yields)
        # merge return values (guards are mutually exclusive by construction)
        rets = fr.returns
        if not rets:
            return None
        val = rets[-1][1]
        for g, v in reversed(rets[:-1]):
            val = merge(g, v, val)
        return val

    # ------------------------------------------------------------------ statements
    def block(self, stmts, fr, loop=None):
        for s in stmts:
            if not (is_sym(Ctx.pc) or Ctx.pc):
                return
            self.stmt(s, fr, loop)

    def stmt(self, s, fr, loop):
        if isinstance(s, ast.Expr):
            if isinstance(s.value, ast.Constant):
                return
            if isinstance(s.value, ast.Yield):
                val = self.eval(s.value.value, fr)
                if fr.lazy is not None:
                    fr.lazy.emit(Ctx.pc, val)
                else:
                    fr.yields.append((Ctx.pc, val))
                return
            if isinstance(s.value, ast.YieldFrom):
                src = self.eval(s.value.value, fr)
                if fr.lazy is not None and isinstance(src, LazyGen):
                    while True:
                        it = src.pull()
                        if it is None:
                            break
                        fr.lazy.emit(band(Ctx.pc, it[0]), it[1])
                    return
                for g, x in SList.of(undrain(src)).items:
                    if fr.lazy is not None:
                        fr.lazy.emit(band(Ctx.pc, g), x)
                    else:
                        fr.yields.append((band(Ctx.pc, g), x))
                return
            self.eval(s.value, fr)
        elif isinstance(s, (ast.Assign, ast.AnnAssign)):
            if isinstance(s, ast.AnnAssign):
                if s.value is None:
                    return
                targets = [s.target]
            else:
                targets = s.targets
            val = self.eval(s.value, fr)
            for t in targets:
                self.assign(t, val, fr)
        elif isinstance(s, ast.AugAssign):
            cur = self.eval(ast.Name(id=s.target.id, ctx=ast.Load()), fr) if isinstance(s.target, ast.Name) else None
            if cur is None:
                raise Unsupported("augmented assignment to a non-name")
            new = self.binop(s.op, cur, self.eval(s.value, fr))
            self.assign(s.target, new, fr)
        elif isinstance(s, ast.Return):
            val = self.eval(s.value, fr) if s.value is not None else None
            fr.returns.append((Ctx.pc, val))
            self.kill(Ctx.pc, fr, loop)
        elif isinstance(s, ast.Raise):
            name = "Exception"
            if s.exc is not None:
                e = s.exc.func if isinstance(s.exc, ast.Call) else s.exc
                name = e.id if isinstance(e, ast.Name) else getattr(e, "attr", "Exception")
            Ctx.raises.append((Ctx.pc, name, ""))
            self.kill(Ctx.pc, fr, loop)
        elif isinstance(s, ast.If):
            self.if_stmt(s, fr, loop)
        elif isinstance(s, ast.For):
            self.for_stmt(s, fr)
        elif isinstance(s, ast.While):
            self.while_stmt(s, fr)
        elif isinstance(s, ast.Pass):
            return
        elif isinstance(s, ast.Break):
            if loop is None:
                raise Unsupported("break outside loop")
            loop.broken = bor(loop.broken, Ctx.pc)
            Ctx.pc = False
        elif isinstance(s, ast.Continue):
            if loop is None:
                raise Unsupported("continue outside loop")
            loop.cont = bor(loop.cont, Ctx.pc)
            Ctx.pc = False
        elif isinstance(s, (ast.Import, ast.ImportFrom)):
            return
        elif isinstance(s, ast.Assert):
            return
        else:
            raise Unsupported(f"statement {type(s).__name__} (line {s.lineno})")

    def kill(self, g, fr, loop):
        """The paths in g leave the function."""
        fr.dead = bor(getattr(fr, "dead", False), g)
        Ctx.pc = band(Ctx.pc, bnot(g))

    def assign(self, target, val, fr, force=False):
        if isinstance(target, ast.Name):
            fr.env[target.id] = val  # merging is done by the enclosing if / for
        elif isinstance(target, (ast.Tuple, ast.List)):
            vals = list(val) if not isinstance(val, (SSet, SList)) else None
            if vals is None or len(vals) != len(target.elts):
                raise Unsupported("unpacking of a symbolic collection")
            for t, v in zip(target.elts, vals):
                self.assign(t, v, fr, force)
        elif isinstance(target, ast.Subscript):
            obj = self.eval(target.value, fr)
            key = self.eval(target.slice, fr)
            if isinstance(obj, AttrView):
                obj.set(key, val)
            elif isinstance(obj, dict) and not is_sym(Ctx.pc):
                obj[key] = val
            else:
                raise Unsupported("subscript assignment under a symbolic guard")
        else:
            raise Unsupported(f"assignment target {type(target).__name__}")

    def if_stmt(self, s, fr, loop):
        c = guard_of(self.eval(s.test, fr))
        if not is_sym(c):
            self.block(s.body if c else s.orelse, fr, loop)
            return
        pc0 = Ctx.pc
        env0 = dict(fr.env)
        Ctx.pc = band(pc0, c)
        self.block(s.body, fr, loop)
        pc_then = Ctx.pc
        env_then = fr.env
        fr.env = dict(env0)
        Ctx.pc = band(pc0, bnot(c))
        self.block(s.orelse, fr, loop)
        pc_else = Ctx.pc
        env_else = fr.env
        # merge environments
        out = {}
        for k in set(env_then) | set(env_else):
            if k in env_then and k in env_else:
                a, b = env_then[k], env_else[k]
                out[k] = a if a is b else soft_merge(c, a, b)
            else:
                out[k] = env_then.get(k, env_else.get(k))
        fr.env = out
        Ctx.pc = bor(pc_then, pc_else)

    def for_stmt(self, s, fr):
        it = self.eval(s.iter, fr)
        if isinstance(it, NodesView):
            it = it.as_set()
        if isinstance(it, LazyGen):
            items = iter(it.pull, None)
        else:
            items = SList.of(it).items if isinstance(it, (SSet, SList, GList)) else [(True, x) for x in self.iterate(it)]
        loop = LoopState()
        pc0 = Ctx.pc
        for g, x in items:
            loop.cont = False
            Ctx.pc = band(pc0, g, bnot(loop.broken), bnot(getattr(fr, "dead", False)))
            if not (is_sym(Ctx.pc) or Ctx.pc):
                continue
            pc_iter = Ctx.pc
            if is_sym(pc_iter):
                # body under a guard: run on a copy of the env and merge assignments
                env0 = dict(fr.env)
                self.assign(s.target, x, fr, force=True)
                self.block(s.body, fr, loop)
                for k in list(fr.env):
                    if k in env0:
                        if fr.env[k] is not env0[k]:
                            fr.env[k] = soft_merge(pc_iter, fr.env[k], env0[k])
            else:
                self.assign(s.target, x, fr, force=True)
                self.block(s.body, fr, loop)
        Ctx.pc = band(pc0, bnot(getattr(fr, "dead", False)))
        if s.orelse:
            raise Unsupported("for-else")

    def while_stmt(self, s, fr):
        """Bounded unrolling with an unwinding assertion: if the loop can still be entered after `unwind`
        iterations, an UnwindLimit 'exception' is recorded under that guard, which makes the query
        inconclusive instead of silently truncating the loop."""
        if s.orelse:
            raise Unsupported("while-else")
        loop = LoopState()
        pc0 = Ctx.pc
        active = pc0
        for _ in range(self.unwind + 1):
            Ctx.pc = active
            c = guard_of(self.eval(s.test, fr))
            active = band(active, c, bnot(loop.broken), bnot(getattr(fr, "dead", False)))
            if not (is_sym(active) or active):
                break
            if _ == self.unwind:
                Ctx.raises.append((active, "UnwindLimit", f"while loop at line {s.lineno} not exhausted after {self.unwind} iterations"))
                break
            loop.cont = False
            Ctx.pc = active
            if is_sym(active):
                env0 = dict(fr.env)
                self.block(s.body, fr, loop)
                for k in list(fr.env):
                    if k in env0 and fr.env[k] is not env0[k]:
                        fr.env[k] = soft_merge(active, fr.env[k], env0[k])
            else:
                self.block(s.body, fr, loop)
        Ctx.pc = band(pc0, bnot(getattr(fr, "dead", False)))

    def e_NamedExpr(self, e, fr):
        val = self.eval(e.value, fr)
        if not isinstance(e.target, ast.Name):
            raise Unsupported("walrus target")
        old = fr.env.get(e.target.id)
        fr.env[e.target.id] = val if (old is None or not is_sym(Ctx.pc)) else soft_merge(Ctx.pc, val, old)
        return val

    def iterate(self, it):
        if isinstance(it, (list, tuple, set, frozenset, dict, range)) or hasattr(it, "__iter__"):
            return list(it)
        raise Unsupported(f"iteration over {type(it).__name__}")

    # ------------------------------------------------------------------ expressions
    def eval(self, e, fr):
        m = getattr(self, "e_" + type(e).__name__, None)
        if m is None:
            raise Unsupported(f"expression {type(e).__name__} (line {getattr(e, 'lineno', '?')})")
        return m(e, fr)

    def e_Constant(self, e, fr):
        return e.value

    def e_JoinedStr(self, e, fr):
        parts = []
        for v in e.values:
            if isinstance(v, ast.Constant):
                parts.append(str(v.value))
            else:
                try:
                    val = self.eval(v.value, fr)
                except Unsupported:
                    val = "<sym>"
                parts.append(str(val) if not isinstance(val, (SSet, SList, SBool)) else "<sym>")
        return "".join(parts)

    def e_Name(self, e, fr):
        if e.id in fr.env:
            v = fr.env[e.id]
            if isinstance(v, Poison):
                raise Unsupported(f"{e.id}: {v.why}")
            return v
        f = self.lookup_func(e.id, fr.env.get("__mod__"))
        if f is not None:
            return f
        if e.id in self.globals:
            return self.globals[e.id]
        if e.id == "cls" or e.id == fr.env.get("__cls__"):
            return ClassRef(fr.env.get("__cls__"))
        raise Unsupported(f"unknown name {e.id}")

    def e_Tuple(self, e, fr):
        return tuple(self.eval(x, fr) for x in e.elts)

    def e_List(self, e, fr):
        out = GList()
        for x in e.elts:
            if isinstance(x, ast.Starred):
                out.extend(self.iterate_any(self.eval(x.value, fr)))
            else:
                out.append(self.eval(x, fr))
        out.guards = [True] * len(out)
        return out

    def iterate_any(self, v):
        if isinstance(v, (SSet, SList)):
            if SList.of(v).is_concrete():
                return SList.of(v).concrete()
            raise Unsupported("starred symbolic collection")
        return list(v)

    def e_Set(self, e, fr):
        out = SSet({})
        for x in e.elts:
            if isinstance(x, ast.Starred):  # {a, *others}: union with the (possibly guarded) collection
                out = out.union(SSet.of(self.eval(x.value, fr)))
            else:
                out = out.union(SSet({self.eval(x, fr): True}))
        return out

    def e_Dict(self, e, fr):
        return {self.eval(k, fr): self.eval(v, fr) for k, v in zip(e.keys, e.values)}

    def e_IfExp(self, e, fr):
        c = guard_of(self.eval(e.test, fr))
        if not is_sym(c):
            return self.eval(e.body if c else e.orelse, fr)
        pc0 = Ctx.pc
        Ctx.pc = band(pc0, c)
        a = self.eval(e.body, fr)
        Ctx.pc = band(pc0, bnot(c))
        b = self.eval(e.orelse, fr)
        Ctx.pc = pc0
        return merge(c, a, b)

    def e_BoolOp(self, e, fr):
        vals = []
        pc0 = Ctx.pc
        acc = True if isinstance(e.op, ast.And) else False
        last = None
        try:
            for x in e.values:
                v = self.eval(x, fr)
                last = v
                g = guard_of(v)
                vals.append((v, g))
                if isinstance(e.op, ast.And):
                    if not is_sym(g) and not g:
                        return v if len(vals) == 1 or all(not is_sym(h) for _, h in vals) else wrap(False)
                    acc = band(acc, g)
                    Ctx.pc = band(Ctx.pc, g)
                else:
                    if not is_sym(g) and g:
                        if all(not is_sym(h) for _, h in vals):
                            return v
                        # X or Y with symbolic X: value semantics only for collections / booleans
                        return self._or_value(vals)
                    acc = bor(acc, g)
                    Ctx.pc = band(Ctx.pc, bnot(g))
        finally:
            Ctx.pc = pc0
        if all(not is_sym(h) for _, h in vals):
            return last
        if isinstance(e.op, ast.Or):
            return self._or_value(vals)
        return wrap(acc)

    def _or_value(self, vals):
        """`a or b or ...` with symbolic truthiness: defined for booleans and for `coll or []`."""
        if all(isinstance(v, (bool, SBool)) for v, _ in vals):
            return wrap(bor(*[g for _, g in vals]))
        first = vals[0][0]
        rest_empty = all((isinstance(v, (list, tuple, set, frozenset, SSet, SList)) and not is_sym(g) and not g) for v, g in vals[1:])
        if isinstance(first, (SSet, SList)) and rest_empty:
            return first  # iterating an empty symbolic collection equals iterating []
        raise Unsupported("`or` over symbolic non-boolean values")

    def e_UnaryOp(self, e, fr):
        v = self.eval(e.operand, fr)
        if isinstance(e.op, ast.Not):
            return wrap(bnot(guard_of(v)))
        if isinstance(e.op, ast.USub):
            return -v
        if isinstance(e.op, ast.UAdd):
            return +v
        raise Unsupported("unary op")

    def e_BinOp(self, e, fr):
        return self.binop(e.op, self.eval(e.left, fr), self.eval(e.right, fr))

    def binop(self, op, a, b):
        symbolic = any(isinstance(x, (SSet, SList)) for x in (a, b))
        if not symbolic:
            if isinstance(op, ast.BitOr):
                return a | b
            if isinstance(op, ast.Sub):
                return a - b
            if isinstance(op, ast.BitAnd):
                return a & b
            if isinstance(op, ast.Add):
                return a + b
            if isinstance(op, ast.Mult):
                return a * b
            if isinstance(op, ast.FloorDiv):
                return a // b
            raise Unsupported(f"binary op {type(op).__name__}")
        if isinstance(op, ast.Add):
            return SList(SList.of(a).items + SList.of(b).items)
        A = SSet.of(a)
        if isinstance(op, ast.BitOr):
            return A.union(b)
        if isinstance(op, ast.Sub):
            return A.diff(b)
        if isinstance(op, ast.BitAnd):
            return A.inter(b)
        raise Unsupported(f"binary op {type(op).__name__} on symbolic values")

    def e_Compare(self, e, fr):
        left = self.eval(e.left, fr)
        acc = True
        for op, r in zip(e.ops, e.comparators):
            right = self.eval(r, fr)
            acc = band(acc, self.compare(op, left, right))
            left = right
        return wrap(acc)

    def compare(self, op, a, b):
        if isinstance(op, (ast.In, ast.NotIn)):
            g = self.contains(b, a)
            return g if isinstance(op, ast.In) else bnot(g)
        if isinstance(op, (ast.Is, ast.IsNot)):
            g = a is b
            return g if isinstance(op, ast.Is) else not g
        if isinstance(a, SymCount) or isinstance(b, SymCount):
            if isinstance(b, SymCount):
                a, b = b, a
                op = {ast.Lt: ast.Gt, ast.Gt: ast.Lt, ast.LtE: ast.GtE, ast.GtE: ast.LtE}.get(type(op), type(op))()
            if not isinstance(b, int):
                raise Unsupported("comparison of two symbolic counts")
            if isinstance(op, ast.Eq):
                return a.eq(b)
            if isinstance(op, ast.NotEq):
                return bnot(a.eq(b))
            if isinstance(op, ast.GtE):
                return a.ge(b)
            if isinstance(op, ast.Gt):
                return a.ge(b + 1)
            if isinstance(op, ast.Lt):
                return bnot(a.ge(b))
            if isinstance(op, ast.LtE):
                return bnot(a.ge(b + 1))
            raise Unsupported("count comparison")
        if isinstance(a, (SSet, SList)) or isinstance(b, (SSet, SList)):
            if isinstance(a, SList) or isinstance(b, SList):
                raise Unsupported("comparison of symbolic lists")
            A = SSet.of(a)
            if isinstance(op, ast.Eq):
                return A.eq_guard(b)
            if isinstance(op, ast.NotEq):
                return bnot(A.eq_guard(b))
            if isinstance(op, ast.LtE):
                return A.subset_guard(b)
            if isinstance(op, ast.Lt):
                return A.subset_guard(b, proper=True)
            if isinstance(op, ast.GtE):
                return SSet.of(b).subset_guard(A)
            if isinstance(op, ast.Gt):
                return SSet.of(b).subset_guard(A, proper=True)
            raise Unsupported("set comparison")
        if isinstance(a, (SBool,)) or isinstance(b, (SBool,)):
            from .sym import biff

            g = biff(guard_of(a), guard_of(b))
            return g if isinstance(op, ast.Eq) else bnot(g)
        if isinstance(op, ast.Eq):
            return a == b
        if isinstance(op, ast.NotEq):
            return a != b
        if isinstance(op, ast.Lt):
            return a < b
        if isinstance(op, ast.LtE):
            return a <= b
        if isinstance(op, ast.Gt):
            return a > b
        if isinstance(op, ast.GtE):
            return a >= b
        raise Unsupported("comparison")

    def contains(self, coll, x):
        if isinstance(coll, SSet):
            return coll.mem(x)
        if isinstance(coll, GList):
            coll = SList.of(coll)
        if isinstance(coll, SList):
            return bor(*[g for g, y in coll.items if y == x])
        if isinstance(coll, M.SymGraphBase):
            return coll.contains(x)
        if isinstance(coll, SymMixed):
            return guard_of(self.apply(Bound(self.classes["NxMixedGraph"]["__contains__"], coll), [x], {}))
        if isinstance(coll, NodesView):
            return coll.g.contains(x)
        if isinstance(coll, AttrView):
            return coll.has(x)
        return x in coll

    def e_Attribute(self, e, fr):
        obj = self.eval(e.value, fr)
        return self.getattr(obj, e.attr)

    def getattr(self, obj, name):
        if (isinstance(obj, str) and obj == "NX") or (isinstance(obj, tuple) and obj and obj[0] == "NX"):
            path = (obj if isinstance(obj, tuple) else ("NX",)) + (name,)
            if name == "Graph":
                return lambda *a, **k: M.SymGraph(self.U) if not a else _unsupported("nx.Graph(data)")
            if name == "DiGraph":
                return lambda *a, **k: M.SymDiGraph(self.U) if not a else _unsupported("nx.DiGraph(data)")
            fn = NX_FUNCS.get(name)
            return fn if fn is not None else path
        if isinstance(obj, SymMixed):
            if name in ("directed", "undirected"):
                return getattr(obj, name)
            if name == "__class__":
                return ClassRef("NxMixedGraph")
            f = self.classes["NxMixedGraph"].get(name)
            if f is None:
                raise Unsupported(f"NxMixedGraph.{name}")
            if f.kind == "classmethod":
                return Bound(f, ClassRef("NxMixedGraph"))
            if f.kind == "staticmethod":
                return f
            return Bound(f, obj)
        if isinstance(obj, ClassRef):
            f = self.classes[obj.name].get(name)
            if f is None:
                raise Unsupported(f"{obj.name}.{name}")
            if f.kind == "classmethod":
                return Bound(f, obj)
            return f
        if isinstance(obj, Judgement):
            if name == "is_canonical":
                return self.apply(Bound(self.classes["DSeparationJudgement"]["is_canonical"], obj), [], {})
            return getattr(obj, name)
        if isinstance(obj, M.SymGraphBase):
            if name == "nodes":
                return NodesView(obj)
            if name in ("graph",):
                return obj.graph
            return getattr(obj, name)
        if isinstance(obj, SSet):
            return SetMethod(self, obj, name)
        if isinstance(obj, SList):
            return ListMethod(self, obj, name)
        if isinstance(obj, (set, frozenset)) and name in ("union", "intersection", "difference", "issubset", "issuperset", "update", "add", "copy", "isdisjoint", "pop"):
            return SetMethod(self, obj, name)
        if isinstance(obj, list) and name in ("append", "extend"):
            return ListMethod(self, obj, name)
        return getattr(obj, name)

    def e_Subscript(self, e, fr):
        obj = self.eval(e.value, fr)
        if isinstance(e.slice, ast.Slice):
            lo = self.eval(e.slice.lower, fr) if e.slice.lower else None
            hi = self.eval(e.slice.upper, fr) if e.slice.upper else None
            if isinstance(obj, (SSet, SList)):
                raise Unsupported("slice of a symbolic collection")
            return obj[lo:hi]
        key = self.eval(e.slice, fr)
        if isinstance(obj, (SSet, SList)):
            raise Unsupported("index into a symbolic collection")
        if isinstance(obj, NodesView):
            return AttrView(obj.g, key)
        if isinstance(obj, AttrView):
            return obj.get(key)
        return obj[key]

    def e_Lambda(self, e, fr):
        interp = self

        def fn(*args):
            env = dict(fr.env)
            for a, v in zip(e.args.args, args):
                env[a.arg] = v
            return interp.eval(e.body, Frame(env))

        return fn

    def e_Starred(self, e, fr):
        raise Unsupported("starred expression")

    # -- comprehensions -------------------------------------------------------------
    def comp(self, e, fr, elt_fn):
        out = []
        pc0 = Ctx.pc

        def rec(i, env, g):
            if i == len(e.generators):
                f2 = Frame(env)
                saved = Ctx.pc
                Ctx.pc = band(pc0, g)
                try:
                    out.append((g, elt_fn(f2)))
                finally:
                    Ctx.pc = saved
                return
            gen = e.generators[i]
            f2 = Frame(env)
            saved = Ctx.pc
            Ctx.pc = band(pc0, g)
            try:
                it = undrain(self.eval(gen.iter, f2))
            finally:
                Ctx.pc = saved
            if isinstance(it, NodesView):
                it = it.as_set()
            items = SList.of(it).items if isinstance(it, (SSet, SList, GList)) else [(True, x) for x in self.iterate(it)]
            for h, x in items:
                env2 = dict(env)
                f3 = Frame(env2)
                self.assign_plain(gen.target, x, env2)
                gg = band(g, h)
                ok = True
                Ctx.pc = band(pc0, gg)
                try:
                    for cond in gen.ifs:
                        c = guard_of(self.eval(cond, f3))
                        gg = band(gg, c)
                        Ctx.pc = band(pc0, gg)
                        if not is_sym(gg) and not gg:
                            ok = False
                            break
                finally:
                    Ctx.pc = saved
                if ok:
                    rec(i + 1, env2, gg)

        rec(0, dict(fr.env), True)
        return out

    def assign_plain(self, target, val, env):
        if isinstance(target, ast.Name):
            env[target.id] = val
        elif isinstance(target, (ast.Tuple, ast.List)):
            vals = list(val)
            if len(vals) != len(target.elts):
                raise Unsupported("unpack length")
            for t, v in zip(target.elts, vals):
                self.assign_plain(t, v, env)
        else:
            raise Unsupported("comprehension target")

    def e_ListComp(self, e, fr):
        items = self.comp(e, fr, lambda f: self.eval(e.elt, f))
        sl = SList(items)
        return sl.concrete() if sl.is_concrete() else sl

    def e_GeneratorExp(self, e, fr):
        return SList(self.comp(e, fr, lambda f: self.eval(e.elt, f)))

    def e_SetComp(self, e, fr):
        items = self.comp(e, fr, lambda f: self.eval(e.elt, f))
        flat = []
        for g, x in items:
            if isinstance(x, Choice):
                flat.extend((band(g, h), y) for h, y in x.items)
            else:
                flat.append((g, x))
        return SSet.of(SList(flat))

    def e_DictComp(self, e, fr):
        items = self.comp(e, fr, lambda f: (self.eval(e.key, f), self.eval(e.value, f)))
        if not SList(items).is_concrete():
            return GDict([(g, k, v) for g, (k, v) in items])
        return dict(x for g, x in items if g)

    # -- calls ------------------------------------------------------------------------
    def e_Call(self, e, fr):
        fn = self.eval(e.func, fr)
        args = []
        for a in e.args:
            if isinstance(a, ast.Starred):
                args.extend(self.iterate_any(self.eval(a.value, fr)))
            else:
                args.append(self.eval(a, fr))
        kwargs = {}
        for k in e.keywords:
            if k.arg is None:
                kwargs.update(self.eval(k.value, fr))
            else:
                kwargs[k.arg] = self.eval(k.value, fr)
        return self.apply(fn, args, kwargs)

    def native(self, fn, args, kwargs):
        import functools

        if isinstance(fn, (SetMethod, ListMethod)):
            return fn(*args, **kwargs)
        args = [SList.of(a) if isinstance(a, GList) and a.symbolic() else undrain(a) for a in args]
        kwargs = {k: (SList.of(a) if isinstance(a, GList) and a.symbolic() else undrain(a)) for k, a in kwargs.items()}
        if fn is functools.partial:
            return Partial(args[0], args[1:], kwargs)
        sym = any(isinstance(a, (SSet, SList, SBool, SymMixed, M.SymGraphBase, Judgement)) for a in list(args) + list(kwargs.values()))
        name = getattr(fn, "__name__", None)
        if isinstance(fn, tuple) and fn and fn[0] == "NX":
            raise Unsupported(f"networkx function {'.'.join(fn[1:])} has no model")
        if getattr(fn, "__self__", None) is not None and isinstance(fn.__self__, (M.SymGraphBase, NodesView)):
            return fn(*args, **kwargs)
        if fn in NX_MODEL_SET:
            return fn(*args, **kwargs)
        if fn in BUILTIN_MODELS:
            return BUILTIN_MODELS[fn](self, *args, **kwargs)
        if name == "from_iterable":
            return m_chain_from_iterable(self, *args)
        if fn in self.passthrough:
            return fn(*args, **kwargs)
        if not sym:
            return fn(*args, **kwargs)
        from y0.dsl import CounterfactualVariable, Variable

        if name == "_upgrade_variables" and len(args) == 1 and isinstance(args[0], SSet):
            return args[0]  # a guarded set of Variable objects is already 'upgraded'
        if name == "intervene" and isinstance(getattr(fn, "__self__", None), Variable) and len(args) == 1 and isinstance(args[0], SSet):
            # Variable.intervene(<guarded set of interventions>): one alternative per subset
            out = []
            for g, sub in subsets_of(args[0]):
                if sub:
                    out.append((g, fn(sub)))
                else:
                    M.record_raise(g, "ValueError", "intervene() with an empty set")
            return Choice(out)
        if fn is CounterfactualVariable and not args and isinstance(kwargs.get("interventions"), SSet):
            out = []
            rest = {k: v for k, v in kwargs.items() if k != "interventions"}
            for g, sub in subsets_of(kwargs["interventions"]):
                if sub:
                    out.append((g, fn(interventions=sub, **rest)))
                else:
                    M.record_raise(g, "ValueError", "CounterfactualVariable without interventions")
            return Choice(out)
        raise Unsupported(f"native call {name or fn!r} with symbolic arguments")


# ------------------------------------------------------------------------------- helper objects


class Judgement:
    """DSeparationJudgement with a possibly symbolic `separated` field."""

    def __init__(self, separated, left, right, conditions):
        self.separated, self.left, self.right, self.conditions = separated, left, right, conditions

    def __truth_guard__(self):
        return guard_of(self.separated)

    def __eq__(self, o):
        return isinstance(o, Judgement) and (self.left, self.right, self.conditions) == (o.left, o.right, o.conditions)

    def __hash__(self):
        return hash((self.left, self.right, self.conditions))

    def __repr__(self):
        return f"J({self.left},{self.right}|{self.conditions}:{self.separated})"


class AttrView:
    """Attribute dict of one node of a symbolic graph: key -> (has-guard, value-guard)."""

    def __init__(self, g, v):
        self.g, self.v = g, v

    def has(self, key):
        return self.g.attr_has.get((self.v, key), False)

    def get(self, key):
        return wrap(self.g.attr.get((self.v, key), False))

    def set(self, key, val):
        k = (self.v, key)
        self.g.attr[k] = bite(Ctx.pc, guard_of(val), self.g.attr.get(k, False))
        self.g.attr_has[k] = bor(self.g.attr_has.get(k, False), Ctx.pc)


class NodesView:
    def __init__(self, g):
        self.g = g

    def items(self):
        return SList([(self.g.node[v], (v, AttrView(self.g, v))) for v in self.g.U])

    def values(self):
        return SList([(self.g.node[v], AttrView(self.g, v)) for v in self.g.U])

    def __call__(self, data=False):
        if data is True:
            return self.items()
        return self.g.nodes(data=data)

    def as_set(self):
        return self.g.nodes()

    def attrs(self, v):
        return {k: val for (n, k), val in self.g.attr.items() if n == v}


class SetMethod:
    def __init__(self, interp, s, name):
        self.interp, self.s, self.name = interp, s, name

    def __call__(self, *args):
        s, n = self.s, self.name
        S = SSet.of(s)
        if n == "union":
            out = S
            for a in args:
                out = out.union(a)
            return out
        if n == "intersection":
            out = S
            for a in args:
                out = out.inter(a)
            return out
        if n == "difference":
            out = S
            for a in args:
                out = out.diff(a)
            return out
        if n == "issubset":
            return wrap(S.subset_guard(args[0]))
        if n == "issuperset":
            return wrap(SSet.of(args[0]).subset_guard(S))
        if n == "isdisjoint":
            return wrap(bnot(guard_of(S.inter(args[0]))))
        if n == "copy":
            return SSet(dict(S.d)) if isinstance(s, SSet) else set(s)
        if n in ("update", "add"):
            if n == "add" and isinstance(args[0], Choice):
                add = SSet.of(SList(list(args[0].items)))
            else:
                add = SSet.of(args[0]) if n == "update" else SSet({args[0]: True})
            if isinstance(s, SSet):
                for k, g in add.d.items():
                    s.d[k] = bor(s.d.get(k, False), band(Ctx.pc, g))
                return None
            if not is_sym(Ctx.pc) and add.is_concrete():
                s.update(add.concrete())
                return None
            raise Unsupported("in-place update of a concrete set under a symbolic guard")
        raise Unsupported(f"set.{n}")


class ListMethod:
    def __init__(self, interp, s, name):
        self.interp, self.s, self.name = interp, s, name

    def __call__(self, *args):
        s, n = self.s, self.name
        if n == "append":
            if isinstance(s, SList):
                s.items.append((Ctx.pc, args[0]))
                return None
            if isinstance(s, GList):
                list.append(s, args[0])
                s.guards.append(Ctx.pc)
                return None
            if not is_sym(Ctx.pc):
                s.append(args[0])
                return None
            raise Unsupported("append to a concrete list under a symbolic guard")
        if n == "index" and isinstance(s, list):
            return s.index(*args)
        raise Unsupported(f"list.{n}")


# ------------------------------------------------------------------------------- builtin models


def m_set(interp, it=()):
    if isinstance(it, NodesView):
        it = it.as_set()
    if isinstance(it, (SSet, SList)):
        return SSet.of(it)
    if isinstance(it, M.SymGraphBase):
        return it.nodes()
    out = SSet({x: True for x in it})
    return out


def m_frozenset(interp, it=()):
    if isinstance(it, (SSet, SList)):
        s = SSet.of(it)
        if s.is_concrete():
            return frozenset(s.concrete())
        return s  # a guarded set; immutability is not modelled
    return frozenset(it)


def m_list(interp, it=()):
    if isinstance(it, NodesView):
        it = it.as_set()
    if isinstance(it, (SSet, SList)):
        sl = SList.of(it)
        return sl.concrete() if sl.is_concrete() else sl
    return list(it)


def m_tuple(interp, it=()):
    if isinstance(it, (SSet, SList)):
        sl = SList.of(it)
        if sl.is_concrete():
            return tuple(sl.concrete())
        raise Unsupported("tuple of a symbolic collection")
    return tuple(it)


def m_len(interp, x):
    if isinstance(x, (SSet, SList)):
        if SList.of(x).is_concrete():
            return len(SSet.of(x).concrete()) if isinstance(x, SSet) else len(x.concrete())
        return SymCount([g for g, _ in SList.of(x).items])
    if isinstance(x, SymMixed):
        raise Unsupported("len(graph)")
    return len(x)


def m_any(interp, it):
    if isinstance(it, (SSet, SList)):
        gs = []
        for g, x in SList.of(it).items:
            gs.append(band(g, guard_of(x)))
        return wrap(bor(*gs))
    return any(guard_of(x) if isinstance(x, SBool) else x for x in it) if not any(isinstance(x, SBool) for x in it) else wrap(bor(*[guard_of(x) for x in it]))


def m_all(interp, it):
    if isinstance(it, (SSet, SList)):
        gs = []
        for g, x in SList.of(it).items:
            gs.append(bor(bnot(g), guard_of(x)))
        return wrap(band(*gs))
    it = list(it)
    return wrap(band(*[guard_of(x) for x in it]))


def m_isinstance(interp, x, cls):
    if isinstance(x, (SSet, SList)):
        return False if cls is not None and not isinstance(cls, str) and cls not in (set, list, frozenset, tuple) else False
    if isinstance(cls, str):
        return False
    if isinstance(cls, ClassRef):
        return isinstance(x, SymMixed) if cls.name == "NxMixedGraph" else isinstance(x, Judgement)
    try:
        return isinstance(x, cls)
    except TypeError:
        return False


def m_sorted(interp, it, key=None, reverse=False):
    if isinstance(it, (SSet, SList)):
        sl = SList.of(it)
        kf = (lambda x: interp.apply(key, [x], {})) if key is not None else (lambda x: x)
        items = sorted(sl.items, key=lambda gx: kf(gx[1]), reverse=reverse)
        out = SList(items)
        return out.concrete() if out.is_concrete() else out
    kf = (lambda x: interp.apply(key, [x], {})) if key is not None else None
    return sorted(it, key=kf, reverse=reverse)


def m_chain_from_iterable(interp, it):
    out = []
    for g, sub in SList.of(it).items if isinstance(it, (SSet, SList)) else [(True, x) for x in it]:
        subs = SList.of(sub).items if isinstance(sub, (SSet, SList)) else [(True, x) for x in sub]
        for h, x in subs:
            out.append((band(g, h), x))
    return SList(out)


def m_combinations(interp, it, r):
    if isinstance(it, (SSet, SList)):
        sl = SList.of(it)
        out = []
        for combo in itt.combinations(sl.items, r):
            out.append((band(*[g for g, _ in combo]), tuple(x for _, x in combo)))
        return SList(out)
    return list(itt.combinations(it, r))


def m_product(interp, *its, repeat=1):
    lists = [SList.of(x) if isinstance(x, (SSet, SList)) else SList([(True, y) for y in x]) for x in its] * repeat
    out = []
    for combo in itt.product(*[l.items for l in lists]):
        out.append((band(*[g for g, _ in combo]), tuple(x for _, x in combo)))
    return SList(out)


def m_iter(interp, x):
    return x


def m_enumerate(interp, it, start=0):
    """enumerate over a guarded list: the index of an element is the number of present elements before it,
    so each (candidate, possible index) pair becomes one guarded element (a case split)."""
    import z3

    if not isinstance(it, (SSet, SList)) or SList.of(it).is_concrete():
        vals = SList.of(it).concrete() if isinstance(it, (SSet, SList)) else list(it)
        return list(enumerate(vals, start))
    items = SList.of(it).items
    out = []
    for j, (g, x) in enumerate(items):
        earlier = [lift(h) for h, _ in items[:j]]
        for i in range(j + 1):
            if not earlier:
                cnt = (i == 0)
            else:
                cnt = z3.And(z3.AtMost(*earlier, i), z3.AtLeast(*earlier, i)) if i <= len(earlier) else False
            out.append((band(g, cnt), (start + i, x)))
    return SList(out)


def nx_set_node_attributes(g, value, name):
    if isinstance(value, dict):
        raise Unsupported("set_node_attributes with a dict")
    for v in g.U:
        here = band(Ctx.pc, g.node[v])
        g.attr_has[(v, name)] = bor(g.attr_has.get((v, name), False), here)
        g.attr[(v, name)] = bite(here, guard_of(value), g.attr.get((v, name), False))


_pref_counter = [0]


def m_min(interp, it, *more, key=None):
    """min() of a guarded collection under an *arbitrary* total preference (fresh Booleans): sound for every key."""
    import z3

    if more:  # min(a, b, ...): concrete values only
        vals = [it, *more]
        if any(isinstance(v, (SSet, SList, SBool, SymCount)) for v in vals):
            raise Unsupported("min() of several symbolic arguments")
        return min(vals) if key is None else min(vals, key=lambda x: interp.apply(key, [x], {}))

    if not isinstance(it, (SSet, SList)) or SList.of(it).is_concrete():
        vals = SList.of(it).concrete() if isinstance(it, (SSet, SList)) else list(it)
        if key is None:
            return min(vals)
        return min(vals, key=lambda x: interp.apply(key, [x], {}))
    items = SList.of(it).items
    out = []
    pref = {}
    for i in range(len(items)):
        for j in range(i + 1, len(items)):
            _pref_counter[0] += 1
            b = z3.Bool(f"pref_{_pref_counter[0]}")
            pref[(i, j)] = b
            pref[(j, i)] = z3.Not(b)
    for i, (g, x) in enumerate(items):
        others = [bor(bnot(h), pref[(i, j)]) for j, (h, _) in enumerate(items) if j != i]
        out.append((band(g, *others), x))
    M.record_raise(bnot(bor(*[g for g, _ in items])), "ValueError", "min() arg is an empty sequence")
    return Choice(out)


def m_groupby(interp, it, key=None):
    items = SList.of(it).items if isinstance(it, (SSet, SList)) else [(True, x) for x in it]
    kf = (lambda x: interp.apply(key, [x], {})) if key is not None else (lambda x: x)
    groups = []
    for g, x in items:
        k = kf(x)
        if groups and groups[-1][0] == k:
            groups[-1][1].append((g, x))
        else:
            groups.append((k, [(g, x)]))
    # a group exists on the paths where one of its members is present
    return SList([(bor(*[g for g, _ in members]), (k, SList(members))) for k, members in groups])


def nx_topological_sort(g):
    """Stub: some valid topological order.  The universe order is returned; callers whose result could depend on
    the particular order are covered because min() is modelled with an arbitrary preference."""
    M.record_raise(bnot(g.is_acyclic_guard()), "NetworkXUnfeasible", "Graph contains a cycle")
    return SList([(g.node[v], v) for v in g.U])


def m_str(interp, x=""):
    return str(x)


BUILTIN_MODELS = {
    set: m_set,
    frozenset: m_frozenset,
    list: m_list,
    tuple: m_tuple,
    len: m_len,
    any: m_any,
    all: m_all,
    isinstance: m_isinstance,
    sorted: m_sorted,
    itt.combinations: m_combinations,
    itt.product: m_product,
    iter: m_iter,
    min: m_min,
    itt.groupby: m_groupby,
    enumerate: m_enumerate,
}


def _unsupported(msg):
    raise Unsupported(msg)


NX_FUNCS = {
    "ancestors": M.nx_ancestors,
    "descendants": M.nx_descendants,
    "connected_components": M.nx_connected_components,
    "is_connected": M.nx_is_connected,
    "weakly_connected_components": M.nx_weakly_connected_components,
    "has_path": M.nx_has_path,
    "is_directed_acyclic_graph": M.nx_is_dag,
    "topological_sort": nx_topological_sort,
    "all_simple_paths": M.nx_all_simple_paths,
    "set_node_attributes": nx_set_node_attributes,
    "transitive_closure_dag": M.nx_transitive_closure_dag,
    "transitive_closure": M.nx_transitive_closure_dag,
    "edge_boundary": M.nx_edge_boundary,
    "node_boundary": M.nx_node_boundary,
}

NX_MODEL_SET = set(NX_FUNCS.values())

"""Relational models of networkx objects and functions used by y0's graph code (the stubs of RSI).

A graph over a fixed universe U: node presence guards and edge guards.  Mutators take the current
path condition from the interpreter context, so `g.add_edge(u, v)` under a guard adds the edge only
on the paths where the guard holds.
"""

from __future__ import annotations

import itertools as itt

import z3

from ..common import Unsupported
from .sym import SBool, SList, SSet, band, bite, bnot, bor, guard_of, is_sym, lift, wrap


class Ctx:
    pc = True  # current path condition (set by the interpreter)
    raises: list = []  # (guard, exception class name, message) recorded by models
    side: list = []  # side constraints introduced by models (distinct insertion ranks); added to every query
    counter = [0]


def record_raise(guard, exc_name, msg=""):
    g = band(Ctx.pc, guard)
    if is_sym(g) or g:
        Ctx.raises.append((g, exc_name, msg))


class SymGraphBase:
    directed = True

    def __init__(self, universe, node=None, edge=None):
        self.U = list(universe)
        self.node = dict(node) if node else {v: False for v in self.U}
        self.edge = dict(edge) if edge else {}
        # insertion order of the nodes (networkx reports an undirected edge from its earlier-inserted endpoint):
        # symbolic, pairwise distinct ranks; copies and subgraphs keep them, new graphs get fresh ones
        self.rank = None
        self.attr = {}  # (node, key) -> guard: the attribute's (Boolean) value
        self.attr_has = {}  # (node, key) -> guard: the node has this attribute
        self.graph = {}

    # -- helpers ------------------------------------------------------------------
    def _key(self, u, v):
        return (u, v) if self.directed else frozenset((u, v))

    def e(self, u, v):
        return self.edge.get(self._key(u, v), False)

    def _check(self, v):
        if v not in self.node:
            raise Unsupported(f"node {v!r} outside the universe")

    def ranks(self):
        if self.rank is None:
            Ctx.counter[0] += 1
            k = Ctx.counter[0]
            self.rank = {v: z3.Int(f"ins{k}_{getattr(v, 'name', v)}_{i}") for i, v in enumerate(self.U)}
            Ctx.side.append(z3.Distinct(*self.rank.values()) if len(self.rank) > 1 else z3.BoolVal(True))
        return self.rank

    def copy(self):
        c = type(self)(self.U, self.node, self.edge)
        c.rank = self.rank
        c.attr = dict(self.attr)
        c.attr_has = dict(self.attr_has)
        return c

    def __merge__(self, c, other):
        out = type(self)(self.U)
        out.node = {v: bite(c, self.node[v], other.node[v]) for v in self.U}
        keys = set(self.edge) | set(other.edge)
        out.edge = {k: bite(c, self.edge.get(k, False), other.edge.get(k, False)) for k in keys}
        return out

    # -- mutation -------------------------------------------------------------------
    def add_node(self, v, **attrs):
        self._check(v)
        self.node[v] = bor(self.node[v], Ctx.pc)
        for k, val in attrs.items():
            self.attr[(v, k)] = bite(Ctx.pc, guard_of(val), self.attr.get((v, k), False))
            self.attr_has[(v, k)] = bor(self.attr_has.get((v, k), False), Ctx.pc)

    def add_nodes_from(self, it):
        for g, v in SList.of(it).items:
            self._check(v)
            self.node[v] = bor(self.node[v], band(Ctx.pc, g))

    def add_edge(self, u, v, **attr):
        self._check(u)
        self._check(v)
        if u == v:
            raise Unsupported("self loop")
        g = Ctx.pc
        self.node[u] = bor(self.node[u], g)
        self.node[v] = bor(self.node[v], g)
        k = self._key(u, v)
        self.edge[k] = bor(self.edge.get(k, False), g)

    def add_edges_from(self, it):
        for g, (u, v) in SList.of(it).items:
            self._check(u)
            self._check(v)
            gg = band(Ctx.pc, g)
            self.node[u] = bor(self.node[u], gg)
            self.node[v] = bor(self.node[v], gg)
            k = self._key(u, v)
            self.edge[k] = bor(self.edge.get(k, False), gg)

    def remove_node(self, v):
        record_raise(bnot(self.node[v]), "NetworkXError", f"node {v} not in graph")
        g = Ctx.pc
        self.node[v] = band(self.node[v], bnot(g))
        for k in list(self.edge):
            if v in k:
                self.edge[k] = band(self.edge[k], bnot(g))

    def remove_edge(self, u, v):
        k = self._key(u, v)
        record_raise(bnot(self.edge.get(k, False)), "NetworkXError", f"The edge {u}-{v} is not in the graph")
        self.edge[k] = band(self.edge.get(k, False), bnot(Ctx.pc))

    def remove_edges_from(self, it):
        for g, e in SList.of(it).items:
            k = self._key(e[0], e[1])
            if k in self.edge:
                self.edge[k] = band(self.edge[k], bnot(band(Ctx.pc, g)))

    def remove_nodes_from(self, it):
        for g, v in SList.of(it).items:
            gg = band(Ctx.pc, g)
            self.node[v] = band(self.node[v], bnot(gg))
            for k in list(self.edge):
                if v in k:
                    self.edge[k] = band(self.edge[k], bnot(gg))

    # -- queries ------------------------------------------------------------------
    def nodes(self, data=False):
        if data:
            raise Unsupported("nodes(data=True)")
        return SSet(dict(self.node))

    def __iter__(self):
        raise Unsupported("direct iteration over a symbolic graph (use .nodes())")

    def iter_nodes(self):
        return SSet(dict(self.node))

    def __contains__(self, v):
        raise Unsupported("use contains()")

    def contains(self, v):
        return self.node.get(v, False)

    def __truth_guard__(self):
        return bor(*self.node.values())

    def number_of_nodes_guard(self, n):
        return SSet(dict(self.node)).size_guard_eq(n)

    def edges(self, nbunch=None):
        if nbunch is not None:
            nb = SSet.of([nbunch]) if not isinstance(nbunch, (SSet, SList, set, frozenset, list, tuple)) else SSet.of(nbunch)
            if self.directed:
                return SSet({k: band(g, nb.mem(k[0])) for k, g in self.edge.items()})
            out = {}
            for k, g in self.edge.items():
                u, v = tuple(k)
                # reported from the endpoint that is in nbunch (both orientations when both are)
                out[(u, v)] = band(g, nb.mem(u))
                out[(v, u)] = band(g, nb.mem(v), bnot(nb.mem(u)))
            return SSet(out)
        if self.directed:
            return SSet({k: g for k, g in self.edge.items()})
        # undirected: networkx reports each edge once, from its earlier-inserted endpoint; the insertion order is
        # symbolic, so both orientations are possible (guarded by the rank comparison)
        idx = {v: i for i, v in enumerate(self.U)}
        r = self.ranks()
        out = {}
        for k, g in self.edge.items():
            if not (is_sym(g) or g):
                continue
            u, v = sorted(k, key=idx.get)
            out[(u, v)] = band(g, r[u] < r[v])
            out[(v, u)] = band(g, r[v] < r[u])
        return SSet(out)

    def has_edge(self, u, v):
        return wrap(self.e(u, v))

    def has_node(self, v):
        return wrap(self.node.get(v, False))

    def number_of_nodes(self):
        s = SSet(dict(self.node))
        if s.is_concrete():
            return len(s.concrete())
        raise Unsupported("number_of_nodes of a symbolic graph")

    def subgraph(self, nodes):
        keep = SSet.of(nodes)
        out = type(self)(self.U)
        out.node = {v: band(self.node[v], keep.mem(v)) for v in self.U}
        out.edge = {k: band(g, *[keep.mem(x) for x in k]) for k, g in self.edge.items()}
        out.rank = self.rank
        return out


class SymDiGraph(SymGraphBase):
    directed = True

    def predecessors(self, v):
        record_raise(bnot(self.node[v]), "NetworkXError", f"The node {v} is not in the digraph.")
        return SSet({u: self.e(u, v) for u in self.U if u != v})

    def successors(self, v):
        record_raise(bnot(self.node[v]), "NetworkXError", f"The node {v} is not in the digraph.")
        return SSet({w: self.e(v, w) for w in self.U if w != v})

    def in_edges(self, nbunch=None):
        if nbunch is None:
            return self.edges()
        nb = SSet.of([nbunch]) if not isinstance(nbunch, (SSet, SList, set, frozenset, list, tuple)) else SSet.of(nbunch)
        return SSet({k: band(g, nb.mem(k[1])) for k, g in self.edge.items()})

    def out_edges(self, nbunch=None):
        if nbunch is None:
            return self.edges()
        nb = SSet.of([nbunch]) if not isinstance(nbunch, (SSet, SList, set, frozenset, list, tuple)) else SSet.of(nbunch)
        return SSet({k: band(g, nb.mem(k[0])) for k, g in self.edge.items()})

    def out_degree(self, v):
        from .sym import SymCount

        return SymCount([self.e(v, w) for w in self.U if w != v])

    def in_degree(self, v):
        from .sym import SymCount

        return SymCount([self.e(u, v) for u in self.U if u != v])

    def has_predecessor(self, v, u):
        return wrap(self.e(u, v))

    def has_successor(self, u, v):
        return wrap(self.e(u, v))

    def reach(self):
        """reach[u][v]: a directed path u ->* v of length >= 1 exists (Warshall)."""
        U = self.U
        R = {u: {v: self.e(u, v) if u != v else False for v in U} for u in U}
        for k in U:
            for u in U:
                for v in U:
                    if u != k and v != k:
                        R[u][v] = bor(R[u][v], band(R[u][k], R[k][v]))
        return R

    def is_acyclic_guard(self):
        R = self.reach()
        return band(*[bnot(R[u][u]) for u in self.U])


class SymGraph(SymGraphBase):
    directed = False

    def neighbors(self, v):
        record_raise(bnot(self.node[v]), "NetworkXError", f"The node {v} is not in the graph.")
        return SSet({u: self.e(u, v) for u in self.U if u != v})

    def conn(self):
        """conn[u][v]: u and v are joined by a path (u != v), frontier iteration."""
        U = self.U
        R = {u: {v: self.e(u, v) if u != v else False for v in U} for u in U}
        for _ in range(max(len(U) - 2, 0)):
            R2 = {u: dict(R[u]) for u in U}
            for u in U:
                for v in U:
                    if u != v:
                        R2[u][v] = bor(R[u][v], *[band(R[u][w], self.e(w, v)) for w in U if w not in (u, v)])
            R = R2
        return R


# --------------------------------------------------------------------------- networkx functions


def nx_ancestors(g: SymDiGraph, source):
    record_raise(bnot(g.node[source]), "NetworkXError", f"The node {source} is not in the graph.")
    R = g.reach()
    return SSet({u: R[u][source] for u in g.U if u != source})


def nx_descendants(g: SymDiGraph, source):
    record_raise(bnot(g.node[source]), "NetworkXError", f"The node {source} is not in the graph.")
    R = g.reach()
    return SSet({v: R[source][v] for v in g.U if v != source})


def nx_connected_components(g: SymGraph):
    """Set of candidate node sets; guard = 'is a connected component of g'."""
    if g.directed:
        raise Unsupported("connected_components of a directed graph")
    C = g.conn()
    out = {}
    U = g.U
    for k in range(1, len(U) + 1):
        for comp in itt.combinations(U, k):
            cs = set(comp)
            gs = [g.node[v] for v in comp]
            gs += [C[u][v] for u, v in itt.combinations(comp, 2)]
            gs += [bnot(g.e(v, w)) for v in comp for w in U if w not in cs]
            out[frozenset(comp)] = band(*gs)
    return SSet(out)


def nx_weakly_connected_components(g):
    """Components of a directed graph with the directions dropped."""
    if not g.directed:
        return nx_connected_components(g)
    u = SymGraph(g.U, dict(g.node), {})
    for (a, b), e in g.edge.items():
        k = frozenset((a, b))
        u.edge[k] = bor(u.edge.get(k, False), e)
    return nx_connected_components(u)


def nx_is_connected(g: SymGraph):
    record_raise(bnot(bor(*g.node.values())), "NetworkXPointlessConcept", "Connectivity is undefined for the null graph.")
    C = g.conn()
    U = g.U
    return wrap(band(*[bor(bnot(g.node[u]), bnot(g.node[v]), C[u][v]) for u, v in itt.combinations(U, 2)]))


def nx_has_path(g, a, b):
    record_raise(bnot(g.node[a]), "NodeNotFound", f"Either source {a} or target {b} is not in G")
    record_raise(bnot(g.node[b]), "NodeNotFound", f"Either source {a} or target {b} is not in G")
    if a == b:
        return True
    if g.directed:
        return wrap(g.reach()[a][b])
    return wrap(g.conn()[a][b])


def nx_is_dag(g: SymDiGraph):
    return wrap(g.is_acyclic_guard())


def nx_all_simple_paths(g, source, target, cutoff=None):
    """All simple paths source -> target of the complete graph on U, each guarded by its edges being present."""
    record_raise(bnot(g.node[source]), "NodeNotFound", f"source node {source} not in graph")
    record_raise(bnot(g.node[target]), "NodeNotFound", f"target node {target} not in graph")
    if source == target:
        return SList([(g.node[source], [source])])  # networkx >= 3 yields the one-node path
    others = [v for v in g.U if v not in (source, target)]
    out = []
    for k in range(len(others) + 1):
        if cutoff is not None and k + 1 > cutoff:
            break
        for mid in itt.permutations(others, k):
            path = (source, *mid, target)
            out.append((band(*[g.e(u, v) for u, v in zip(path, path[1:])]), list(path)))
    return SList(out)


def nx_edge_boundary(g, nbunch1, nbunch2=None):
    A = SSet.of(nbunch1)
    B = SSet.of(nbunch2) if nbunch2 is not None else SSet({v: bnot(A.mem(v)) for v in g.U})
    if g.directed:
        return SSet({k: band(e, A.mem(k[0]), B.mem(k[1])) for k, e in g.edge.items()})
    out = {}
    for k, e in g.edge.items():
        u, v = tuple(k)
        out[(u, v)] = band(e, A.mem(u), B.mem(v))
        out[(v, u)] = band(e, A.mem(v), B.mem(u))
    return SSet(out)


def nx_node_boundary(g, nbunch1, nbunch2=None):
    A = SSet.of(nbunch1)
    out = {}
    for v in g.U:
        nb = [band(A.mem(u), g.e(u, v)) for u in g.U if u != v]
        cond = band(bnot(A.mem(v)), bor(*nb))
        if nbunch2 is not None:
            cond = band(cond, SSet.of(nbunch2).mem(v))
        out[v] = cond
    return SSet(out)


def nx_transitive_closure_dag(g, topo_order=None):
    out = SymDiGraph(g.U, dict(g.node), {})
    R = g.reach()
    for u in g.U:
        for v in g.U:
            if u != v:
                out.edge[(u, v)] = R[u][v]
    return out

"""Expression family E(d): y0 expression trees of depth <= 3 over a few variable names."""

from __future__ import annotations

import itertools as itt


def leaves():
    from y0.dsl import PP, A, B, C, Distribution, One, P, Pi1, PopulationProbability, Probability, Variable, X, Zero

    def raw(children, parents=(), pop=None):
        d = Distribution(children=tuple(children), parents=tuple(parents))
        return PopulationProbability(population=pop, distribution=d) if pop is not None else Probability(d)

    L = [
        raw((A,)), raw((B,)), raw((A, B)), raw((B, A)), raw((A, B, C)), raw((C, A, B)),
        raw((A,), (B,)), raw((B,), (A,)), raw((A,), (B, C)), raw((A,), (C, B)), raw((A, B), (C,)),
        raw((B, A), (C,)), raw((C,), (A, B)),
        raw((-A,)), raw((+A,), (B,)), raw((A,), (-B,)),
        P[X](A), P[X](A | B), P[X](B, A), P[+X](A), P[X](B | A),
        PP[Pi1](A), PP[Pi1](A | B), PP[Pi1][X](A), raw((B, A), (), pop=Pi1),
        One(), Zero(),
    ]
    return L


RANGES = [("A",), ("B",), ("C",), ("A", "B"), ("A", "C"), ("B", "C")]


def _sum(e, r):
    from y0.dsl import Sum, Variable

    return Sum(expression=e, ranges=frozenset(Variable(n) for n in r))


def _prod(a, b):
    from y0.dsl import Product

    return Product((a, b))


def _frac(a, b):
    from y0.dsl import Fraction, Zero

    if isinstance(b, Zero):
        return None
    return Fraction(a, b)


def level2(L):
    """Raw-constructor trees of depth 2 (kept as built: unsorted products, One denominators ...)."""
    out = []
    for a, b in itt.product(L, L):
        out.append(("prod", _prod(a, b)))
        f = _frac(a, b)
        if f is not None:
            out.append(("frac", f))
    for a in L:
        for r in RANGES:
            out.append(("sum", _sum(a, r)))
    return out


def level3(L, L2, stride: int = 1, offset: int = 0):
    """Depth-3 trees: op(depth2, leaf), op(leaf, depth2), Sum(depth2); every *stride*-th one."""
    from y0.dsl import Product

    i = 0
    for _, e in L2:
        for b in L:
            for kind in ("prod_l", "prod_r", "frac_n", "frac_d", "prod3"):
                i += 1
                if i % stride != offset % stride:
                    continue
                if kind == "prod_l":
                    yield kind, _prod(e, b)
                elif kind == "prod_r":
                    yield kind, _prod(b, e)
                elif kind == "frac_n":
                    f = _frac(e, b)
                    if f is not None:
                        yield kind, f
                elif kind == "frac_d":
                    yield kind, _frac(b, e)
                elif isinstance(e, Product):
                    yield kind, Product((*e.expressions, b))
        for r in RANGES:
            i += 1
            if i % stride != offset % stride:
                continue
            yield "sum", _sum(e, r)


def names_of(e) -> set:
    """All variable names mentioned anywhere (children, parents, subscripts, ranges, Q factors)."""
    return {v.name for v in e.get_variables()}


def child_parent_names(e) -> set:
    from y0.dsl import Fraction, Probability, Product, QFactor, Sum

    if isinstance(e, Probability):
        return {v.name for v in itt.chain(e.children, e.parents)}
    if isinstance(e, Product):
        return set().union(*[child_parent_names(f) for f in e.expressions])
    if isinstance(e, Fraction):
        return child_parent_names(e.numerator) | child_parent_names(e.denominator)
    if isinstance(e, Sum):
        return child_parent_names(e.expression) | {r.name for r in e.ranges}
    if isinstance(e, QFactor):
        return {v.name for v in itt.chain(e.domain, e.codomain)}
    return set()


# --------------------------------------------------------------------------- (de)serialisation


def var_to_json(v):
    from y0.dsl import CounterfactualVariable, Intervention

    d = {"n": v.name, "s": v.star}
    if isinstance(v, CounterfactualVariable):
        d["i"] = sorted([[i.name, i.star] for i in v.interventions])
    elif isinstance(v, Intervention):
        d["iv"] = True
    return d


def var_from_json(d):
    from y0.dsl import CounterfactualVariable, Intervention, Variable

    if "i" in d:
        return CounterfactualVariable(name=d["n"], star=d["s"], interventions=frozenset(Intervention(n, s) for n, s in d["i"]))
    if d.get("iv"):
        return Intervention(d["n"], d["s"])
    return Variable(d["n"], d["s"])


def to_json(e):
    from y0 import dsl

    if isinstance(e, dsl.One):
        return {"t": "one"}
    if isinstance(e, dsl.Zero):
        return {"t": "zero"}
    if isinstance(e, dsl.Probability):
        d = {"t": "p", "c": [var_to_json(v) for v in e.children], "p": [var_to_json(v) for v in e.parents]}
        if isinstance(e, dsl.PopulationProbability):
            d["pop"] = e.population.name
        return d
    if isinstance(e, dsl.Product):
        return {"t": "prod", "e": [to_json(f) for f in e.expressions]}
    if isinstance(e, dsl.Fraction):
        return {"t": "frac", "n": to_json(e.numerator), "d": to_json(e.denominator)}
    if isinstance(e, dsl.Sum):
        return {"t": "sum", "e": to_json(e.expression), "r": sorted(r.name for r in e.ranges)}
    if isinstance(e, dsl.QFactor):
        return {"t": "q", "dom": [var_to_json(v) for v in sorted(e.domain, key=str)], "cod": [var_to_json(v) for v in sorted(e.codomain, key=str)]}
    raise TypeError(type(e))


def from_json(d):
    from y0 import dsl

    t = d["t"]
    if t == "one":
        return dsl.One()
    if t == "zero":
        return dsl.Zero()
    if t == "p":
        dist = dsl.Distribution(children=tuple(var_from_json(v) for v in d["c"]), parents=tuple(var_from_json(v) for v in d["p"]))
        if "pop" in d:
            return dsl.PopulationProbability(population=dsl.Variable(d["pop"]), distribution=dist)
        return dsl.Probability(dist)
    if t == "prod":
        return dsl.Product(tuple(from_json(f) for f in d["e"]))
    if t == "frac":
        return dsl.Fraction(from_json(d["n"]), from_json(d["d"]))
    if t == "sum":
        return dsl.Sum(expression=from_json(d["e"]), ranges=frozenset(dsl.Variable(n) for n in d["r"]))
    if t == "q":
        return dsl.QFactor(domain=frozenset(var_from_json(v) for v in d["dom"]), codomain=frozenset(var_from_json(v) for v in d["cod"]))
    raise ValueError(t)

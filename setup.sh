#!/bin/bash
# Build the overlay virtualenv used by every check (offline; idempotent).
set -e
cd "$(dirname "$0")"
if [ ! -x .venv/bin/python ] || ! .venv/bin/python -c "import z3, crosshair, y0, networkx" 2>/dev/null; then
  rm -rf .venv
  /venv/bin/python -m venv .venv
  SP=$(.venv/bin/python -c "import site;print(site.getsitepackages()[0])")
  echo "import site; site.addsitedir('/venv/lib/python3.12/site-packages')" > "$SP/_venv_overlay.pth"
  PIP_NO_INDEX=1 .venv/bin/pip install -q --no-index --find-links /opt/veriftools/wheels z3-solver crosshair-tool cvc5
fi
.venv/bin/python -c "import z3, crosshair, y0, networkx; print('setup ok: z3', z3.get_version_string(), 'y0 from', y0.__file__)"
